
// @harness vk_ema_display props=C11 kind=bounded(concrete-parameters) tier=thorough
// Display renders NAME(params): EMA(7) (concrete parameters only)
#[kani::proof]
#[kani::unwind(40)]
fn vk_ema_display() {
    let ind = ExponentialMovingAverage::new(7).unwrap();
    let s = format!("{}", ind);
    assert!(s == "EMA(7)");
}
