verus! {
#[derive(Debug, PartialEq, Eq, Clone)]
pub enum TaError { InvalidParameter, DataItemIncomplete, DataItemInvalid }
pub type Result<T> = std::result::Result<T, TaError>;
pub trait Next<T> {
    type Output;
    spec fn next_req(&self, input: T) -> bool;
    spec fn next_ens(&self, post: &Self, input: T, out: Self::Output) -> bool;
    fn next(&mut self, input: T) -> (out: Self::Output)
        requires old(self).next_req(input),
        ensures old(self).next_ens(final(self), input, out);
}
pub trait Reset { 
    spec fn reset_req(&self) -> bool;
    spec fn reset_ens(&self, post: &Self) -> bool;
    fn reset(&mut self) requires old(self).reset_req(), ensures old(self).reset_ens(final(self)); 
}
pub axiom fn ax_lit_01() ensures fin(0.1f64), rv(0.1f64) == 1real / 10real;

pub mod ema {
  use super::*;
  pub struct Ema { period: usize, k: f64, current: f64, is_new: bool }
  impl Ema {
    pub closed spec fn shape_ok(&self) -> bool { self.period >= 1 }
    pub closed spec fn num_ok(&self) -> bool { fin(self.k) && 0real < rv(self.k) <= 1real && rv(self.k) * ((self.period as int + 1) as real) == 2real && (!self.is_new ==> fin(self.current)) }
    pub closed spec fn fresh(&self) -> bool { self.is_new }
    pub closed spec fn cur(&self) -> real { rv(self.current) }
    pub closed spec fn alpha(&self) -> real { rv(self.k) }
    pub closed spec fn per(&self) -> int { self.period as int }
    pub open spec fn outf(&self, x: real) -> real { if self.fresh() { x } else { self.alpha() * x + (1real - self.alpha()) * self.cur() } }
    pub proof fn lemma_alpha_range(&self) requires self.num_ok() ensures 0real < self.alpha() <= 1real {}
    pub fn new(period: usize) -> (r: Result<Self>) 
        requires period < usize::MAX   // F2: without this Verus reports the overflow
        ensures period == 0 <==> r is Err, 
                r is Err ==> r->Err_0 == TaError::InvalidParameter,
                r is Ok ==> r->Ok_0.shape_ok() && r->Ok_0.num_ok() && r->Ok_0.fresh() && r->Ok_0.per() == period,
    {
        broadcast use f64_axioms;
        proof { ax_lit_0(); ax_lit_2(); }
        match period {
            0 => Err(TaError::InvalidParameter),
            _ => { 
                proof { let n1 = (period as int + 1) as real; alg_div_cancel(2real, n1); alg_two_over(n1); }
                Ok(Self {
                period,
                k: 2.0 / usize_as_f64(period + 1),
                current: 0.0,
                is_new: true,
            }) },
        }
    }
  }
  impl Next<f64> for Ema {
    type Output = f64;
    open spec fn next_req(&self, input: f64) -> bool { self.shape_ok() }
    open spec fn next_ens(&self, post: &Self, input: f64, out: f64) -> bool { 
        &&& post.shape_ok() && post.per() == self.per()
        &&& self.num_ok() && fin(input) ==> post.num_ok() && !post.fresh() && post.alpha() == self.alpha() && fin(out) && rv(out) == self.outf(rv(input)) && post.cur() == rv(out)
        &&& self.fresh() ==> out == input
    }
    fn next(&mut self, input: f64) -> Self::Output {
        broadcast use f64_axioms;
        proof { ax_lit_1(); }
        if self.is_new {
            self.is_new = false;
            self.current = input;
        } else {
            self.current = self.k * input + (1.0 - self.k) * self.current;
        }
        self.current
    }
  }
  impl Reset for Ema {
    open spec fn reset_req(&self) -> bool { self.shape_ok() }
    open spec fn reset_ens(&self, post: &Self) -> bool { post.shape_ok() && post.fresh() && post.per() == self.per() && (self.num_ok() ==> post.num_ok() && post.alpha() == self.alpha()) }
    fn reset(&mut self) {
        self.current = 0.0;
        self.is_new = true;
    }
  }
}
pub mod rsi {
  use super::*;
  use super::ema::Ema;
  pub struct Rsi { period: usize, up_ema_indicator: Ema, down_ema_indicator: Ema, prev_val: f64, is_new: bool }
  impl Rsi {
    pub closed spec fn shape_ok(&self) -> bool { self.up_ema_indicator.shape_ok() && self.down_ema_indicator.shape_ok() }
    pub closed spec fn num_ok(&self) -> bool { 
        &&& self.up_ema_indicator.num_ok() && self.down_ema_indicator.num_ok() 
        &&& self.up_ema_indicator.fresh() == self.is_new && self.down_ema_indicator.fresh() == self.is_new
        &&& (!self.is_new ==> fin(self.prev_val) && self.up_ema_indicator.cur() >= 0real && self.down_ema_indicator.cur() >= 0real)
    }
    pub closed spec fn fresh(&self) -> bool { self.is_new }
    pub closed spec fn u(&self) -> real { self.up_ema_indicator.cur() }
    pub closed spec fn d(&self) -> real { self.down_ema_indicator.cur() }
    pub closed spec fn prev(&self) -> real { rv(self.prev_val) }
    pub closed spec fn up_part(&self) -> Ema { self.up_ema_indicator }
    pub closed spec fn down_part(&self) -> Ema { self.down_ema_indicator }
    pub open spec fn gain(&self, x: real) -> real { if self.fresh() { 1real / 10real } else if x > self.prev() { x - self.prev() } else { 0real } }
    pub open spec fn loss(&self, x: real) -> real { if self.fresh() { 1real / 10real } else if x > self.prev() { 0real } else { self.prev() - x } }
  }
  impl Next<f64> for Rsi {
    type Output = f64;
    open spec fn next_req(&self, input: f64) -> bool { self.shape_ok() }
    open spec fn next_ens(&self, post: &Self, input: f64, out: f64) -> bool { 
        &&& post.shape_ok()
        &&& self.num_ok() && fin(input) ==> {
            let x = rv(input);
            &&& post.num_ok() && !post.fresh() && post.prev() == x
            &&& post.u() == self.up_part().outf(self.gain(x)) && post.d() == self.down_part().outf(self.loss(x))
            &&& post.u() + post.d() != 0real ==> fin(out) && rv(out) == 100real * post.u() / (post.u() + post.d()) && 0real <= rv(out) <= 100real   // C03 + C07
            &&& self.fresh() ==> rv(out) == 50real
        }
    }
    fn next(&mut self, input: f64) -> Self::Output {
        broadcast use f64_axioms;
        proof { ax_lit_0(); ax_lit_01(); ax_lit_100(); }
        let ghost good = self.num_ok() && fin(input);
        let mut up = 0.0;
        let mut down = 0.0;

        if self.is_new {
            self.is_new = false;
            // Initialize with some small seed numbers to avoid division by zero
            up = 0.1;
            down = 0.1;
        } else {
            if input > self.prev_val {
                up = input - self.prev_val;
            } else {
                down = self.prev_val - input;
            }
        }

        self.prev_val = input;
        proof { if good { 
            old(self).up_ema_indicator.lemma_alpha_range(); old(self).down_ema_indicator.lemma_alpha_range();
            alg_convex_nonneg(old(self).up_ema_indicator.alpha(), rv(up), old(self).up_ema_indicator.cur());
            alg_convex_nonneg(old(self).down_ema_indicator.alpha(), rv(down), old(self).down_ema_indicator.cur());
        } }
        let up_ema = self.up_ema_indicator.next(up);
        let down_ema = self.down_ema_indicator.next(down);
        proof { if good && rv(up_ema) + rv(down_ema) != 0real { alg_pct(rv(up_ema), rv(down_ema)); } 
                if good && old(self).is_new { alg_half(rv(up_ema)); } }
        100.0 * up_ema / (up_ema + down_ema)
    }
  }
}
pub proof fn alg_div_cancel(a: real, b: real) requires b != 0real ensures (a / b) * b == a
{ assert((a / b) * b == a) by(nonlinear_arith) requires b != 0real; }
pub proof fn alg_two_over(n: real) requires n >= 2real ensures 0real < 2real / n <= 1real
{ assert(0real < 2real / n <= 1real) by(nonlinear_arith) requires n >= 2real; }
pub proof fn alg_convex_nonneg(k: real, x: real, c: real) requires 0real < k <= 1real ensures x >= 0real && c >= 0real ==> k * x + (1real - k) * c >= 0real
{ assert(x >= 0real && c >= 0real ==> k * x + (1real - k) * c >= 0real) by(nonlinear_arith) requires 0real < k <= 1real; }
pub proof fn alg_pct(u: real, d: real) requires u >= 0real, d >= 0real, u + d != 0real ensures 0real <= 100real * u / (u + d) <= 100real
{ assert(0real <= 100real * u / (u + d) <= 100real) by(nonlinear_arith) requires u >= 0real, d >= 0real, u + d != 0real; }
pub proof fn alg_half(u: real) requires u > 0real ensures 100real * u / (u + u) == 50real
{ assert(100real * u / (u + u) == 50real) by(nonlinear_arith) requires u > 0real; }
}
fn main() {}
