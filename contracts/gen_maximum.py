#!/usr/bin/env python3
"""maximum.vspec is minimum.vspec under the order-reversing renaming (run by hand after editing minimum.vspec)."""
import re, os
here = os.path.dirname(os.path.abspath(__file__))
s = open(os.path.join(here, 'minimum.vspec')).read()
s = s.replace('!ext_lt(self.deque@[ci], self.deque@[self.min_index as int])', '!ext_lt(self.deque@[self.MAXIDX as int], self.deque@[ci])')
for a, b in [('Minimum', 'Maximum'), ('find_min_index', 'find_max_index'), ('min_index', 'max_index'), ('MAXIDX', 'max_index'), ('is_least', 'is_greatest'),
             ('lemma_least_rot', 'lemma_greatest_rot'), ('all_padp', 'all_padn'), ('padp(', 'padn('), ('INF()', 'NEG_INF()'), ('low_spec', 'high_spec'),
             ('if input < self.deque', 'if input > self.deque'), ('rv(out) <= rv(input)', 'rv(out) >= rv(input)')]:
    s = s.replace(a, b)
open(os.path.join(here, 'maximum.vspec'), 'w').write(s)
