use ta::indicators::*;
use ta::{Next, DataItem};
fn bar(o:f64,h:f64,l:f64,c:f64,v:f64)->DataItem{DataItem::builder().open(o).high(h).low(l).close(c).volume(v).build().unwrap()}
fn main() {
    // ER flat
    let mut er = EfficiencyRatio::new(3).unwrap();
    println!("ER flat: {:?}", (0..5).map(|_| er.next(10.0)).collect::<Vec<_>>());
    // RSI(1) flat
    let mut rsi = RelativeStrengthIndex::new(1).unwrap();
    println!("RSI(1) flat: {:?}", (0..3).map(|_| rsi.next(10.0)).collect::<Vec<_>>());
    let mut rsi = RelativeStrengthIndex::new(2).unwrap();
    let v: Vec<f64> = (0..2000).map(|_| rsi.next(10.0)).collect();
    println!("RSI(2) flat first NaN at: {:?}", v.iter().position(|x| x.is_nan()));
    // MFI zero volume
    let mut mfi = MoneyFlowIndex::new(3).unwrap();
    println!("MFI zero vol: {:?}", [bar(1.,2.,1.,1.,0.), bar(2.,3.,2.,2.,0.), bar(3.,4.,3.,3.,0.)].iter().map(|b| mfi.next(b)).collect::<Vec<_>>());
    let mut mfi = MoneyFlowIndex::new(3).unwrap();
    println!("MFI flat price: {:?}", (0..4).map(|_| mfi.next(&bar(1.,2.,1.,1.,10.))).collect::<Vec<_>>());
    // CCI: MAD on close vs tp
    let mut cci = CommodityChannelIndex::new(3).unwrap();
    let bars = [bar(1.,4.,1.,1.,1.), bar(2.,3.,2.,3.,1.), bar(2.,8.,2.,2.,1.)];
    let got: Vec<f64> = bars.iter().map(|b| cci.next(b)).collect();
    let mut sma = SimpleMovingAverage::new(3).unwrap(); let mut mad = MeanAbsoluteDeviation::new(3).unwrap();
    let want: Vec<f64> = bars.iter().map(|b| { let tp=(b_h(b)+b_l(b)+b_c(b))/3.0; let s=sma.next(tp); let m=mad.next(tp); if m==0.0 {0.0} else {(tp-s)/(m*0.015)} }).collect();
    println!("CCI got {:?}\nCCI want {:?}", got, want);
    // PPO zero price / ROC zero
    let mut roc = RateOfChange::new(2).unwrap();
    println!("ROC flat: {:?}", (0..4).map(|_| roc.next(5.0)).collect::<Vec<_>>());
    let r = std::panic::catch_unwind(|| ExponentialMovingAverage::new(usize::MAX).is_ok());
    println!("EMA::new(usize::MAX): {:?}", r);
}
fn b_h(b:&DataItem)->f64{use ta::High; b.high()} fn b_l(b:&DataItem)->f64{use ta::Low; b.low()} fn b_c(b:&DataItem)->f64{use ta::Close; b.close()}
