use crate::errors::*;
use crate::traits::{Close, High, Low, Open, Volume};

#[cfg(feature = "serde")]
use serde::{Deserialize, Serialize};

/// Data item is used as an input for indicators.
///
/// # Example
///
/// ```
/// use ta::DataItem;
/// use ta::{Open, High, Low, Close, Volume};
///
/// let item = DataItem::builder()
///     .open(20.0)
///     .high(25.0)
///     .low(15.0)
///     .close(21.0)
///     .volume(7500.0)
///     .build()
///     .unwrap();
///
/// assert_eq!(item.open(), 20.0);
/// assert_eq!(item.high(), 25.0);
/// assert_eq!(item.low(), 15.0);
/// assert_eq!(item.close(), 21.0);
/// assert_eq!(item.volume(), 7500.0);
/// ```
///
#[cfg_attr(feature = "serde", derive(Serialize, Deserialize))]
#[derive(Debug, Clone, PartialEq)]
pub struct DataItem {
    open: f64,
    high: f64,
    low: f64,
    close: f64,
    volume: f64,
}

impl DataItem {
    pub fn builder() -> DataItemBuilder {
        DataItemBuilder::new()
    }
}

impl Open for DataItem {
    fn open(&self) -> f64 {
        self.open
    }
}

impl High for DataItem {
    fn high(&self) -> f64 {
        self.high
    }
}

impl Low for DataItem {
    fn low(&self) -> f64 {
        self.low
    }
}

impl Close for DataItem {
    fn close(&self) -> f64 {
        self.close
    }
}

impl Volume for DataItem {
    fn volume(&self) -> f64 {
        self.volume
    }
}

pub struct DataItemBuilder {
    open: Option<f64>,
    high: Option<f64>,
    low: Option<f64>,
    close: Option<f64>,
    volume: Option<f64>,
}

impl DataItemBuilder {
    pub fn new() -> Self {
        Self {
            open: None,
            high: None,
            low: None,
            close: None,
            volume: None,
        }
    }

    pub fn open(mut self, val: f64) -> Self {
        self.open = Some(val);
        self
    }

    pub fn high(mut self, val: f64) -> Self {
        self.high = Some(val);
        self
    }

    pub fn low(mut self, val: f64) -> Self {
        self.low = Some(val);
        self
    }

    pub fn close(mut self, val: f64) -> Self {
        self.close = Some(val);
        self
    }

    pub fn volume(mut self, val: f64) -> Self {
        self.volume = Some(val);
        self
    }

    pub fn build(self) -> Result<DataItem> {
        if let (Some(open), Some(high), Some(low), Some(close), Some(volume)) =
            (self.open, self.high, self.low, self.close, self.volume)
        {
            // validate
            if low <= open
                && low <= close
                && low <= high
                && high >= open
                && high >= close
                && volume >= 0.0
            {
                let item = DataItem {
                    open,
                    high,
                    low,
                    close,
                    volume,
                };
                Ok(item)
            } else {
                Err(TaError::DataItemInvalid)
            }
        } else {
            Err(TaError::DataItemIncomplete)
        }
    }
}

#[cfg(test)]
mod tests {
    use super::*;

    #[test]
    fn test_builder() {
        fn assert_valid((open, high, low, close, volume): (f64, f64, f64, f64, f64)) {
            let result = DataItem::builder()
                .open(open)
                .high(high)
                .low(low)
                .close(close)
                .volume(volume)
                .build();
            assert!(result.is_ok());
        }

        fn assert_invalid(record: (f64, f64, f64, f64, f64)) {
            let (open, high, low, close, volume) = record;
            let result = DataItem::builder()
                .open(open)
                .high(high)
                .low(low)
                .close(close)
                .volume(volume)
                .build();
            assert_eq!(result, Err(TaError::DataItemInvalid));
        }

        let valid_records = vec![
            // open, high, low , close, volume
            (20.0, 25.0, 15.0, 21.0, 7500.0),
            (10.0, 10.0, 10.0, 10.0, 10.0),
            (0.0, 0.0, 0.0, 0.0, 0.0),
        ];
        for record in valid_records {
            assert_valid(record)
        }

        let invalid_records = vec![
            // open, high, low , close, volume
            (-1.0, 25.0, 15.0, 21.0, 7500.0),
            (20.0, -1.0, 15.0, 21.0, 7500.0),
            (20.0, 25.0, 15.0, -1.0, 7500.0),
            (20.0, 25.0, 15.0, 21.0, -1.0),
            (14.9, 25.0, 15.0, 21.0, 7500.0),
            (25.1, 25.0, 15.0, 21.0, 7500.0),
            (20.0, 25.0, 15.0, 14.9, 7500.0),
            (20.0, 25.0, 15.0, 25.1, 7500.0),
            (20.0, 15.0, 25.0, 21.0, 7500.0),
        ];
        for record in invalid_records {
            assert_invalid(record)
        }
    }
}
