verus! {
// window after feeding history h (from empty) into a period-n ring
pub open spec fn win_of(h: Seq<f64>, n: int) -> Seq<f64> decreases h.len() {
    if h.len() == 0 { Seq::empty() } else { push_trunc(win_of(h.drop_last(), n), h.last(), n) }
}
pub open spec fn last_k(h: Seq<f64>, k: int) -> Seq<f64> { h.subrange(h.len() - k, h.len() as int) }
pub open spec fn min2(a: int, b: int) -> int { if a < b { a } else { b } }

// C01: the window is exactly the last min(t, n) inputs
pub proof fn lemma_history_window(h: Seq<f64>, n: int)
    requires n >= 1
    ensures win_of(h, n) =~= last_k(h, min2(h.len() as int, n))
    decreases h.len()
{
    if h.len() > 0 {
        lemma_history_window(h.drop_last(), n);
        let w = win_of(h.drop_last(), n);
        assert(w =~= last_k(h.drop_last(), min2(h.len() - 1, n)));
    }
}
// C17: histories sharing their last n inputs have the same window
pub proof fn lemma_suffix(h1: Seq<f64>, h2: Seq<f64>, n: int)
    requires n >= 1, h1.len() >= n, h2.len() >= n, last_k(h1, n) =~= last_k(h2, n)
    ensures win_of(h1, n) =~= win_of(h2, n)
{
    lemma_history_window(h1, n); lemma_history_window(h2, n);
}
// C04/C05 generic: deterministic transition system, equal abstract states give equal outputs forever
pub open spec fn run<S>(step: spec_fn(S, f64) -> S, s: S, xs: Seq<f64>) -> S decreases xs.len() {
    if xs.len() == 0 { s } else { step(run(step, s, xs.drop_last()), xs.last()) }
}
pub proof fn lemma_equal_state_equal_outputs<S, O>(step: spec_fn(S, f64) -> S, outf: spec_fn(S, f64) -> O, s1: S, s2: S, xs: Seq<f64>, x: f64)
    requires s1 == s2
    ensures outf(run(step, s1, xs), x) == outf(run(step, s2, xs), x)
{}
}
fn main() {}
