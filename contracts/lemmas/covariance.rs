// lemmas/covariance.rs -- C14: unit covariance of the spec functions the code is proved equal to (contracts/specs.rs).
// Pure spec-level lemmas (no trusted items).  Each is paired, through the value clauses of the indicator contracts,
// with the real code: e.g. SMA::next ensures rv(out) == seq_mean(window'), so seq_mean's covariance is SMA's.
pub mod lemmas_covariance {
use vstd::prelude::*;
use crate::vp::*;

pub open spec fn scaled(w: Seq<f64>, w2: Seq<f64>, c: real) -> bool {
    w.len() == w2.len() && forall|i: int| 0 <= i < w.len() ==> rv(#[trigger] w2[i]) == c * rv(w[i])
}
pub open spec fn shifted(w: Seq<f64>, w2: Seq<f64>, k: real) -> bool {
    w.len() == w2.len() && forall|i: int| 0 <= i < w.len() ==> rv(#[trigger] w2[i]) == rv(w[i]) + k
}

// ---- sums / means -------------------------------------------------------------------------------
pub proof fn lemma_sum_scale(w: Seq<f64>, w2: Seq<f64>, c: real)
    requires scaled(w, w2, c)
    ensures seq_sum(w2) == c * seq_sum(w) //#C14
    decreases w.len()
{
    if w.len() == 0 {
        assert(c * 0real == 0real) by(nonlinear_arith);
    } else {
        assert(scaled(w.drop_last(), w2.drop_last(), c)) by {
            assert forall|i: int| 0 <= i < w.len() - 1 implies rv(#[trigger] w2.drop_last()[i]) == c * rv(w.drop_last()[i]) by { assert(rv(w2[i]) == c * rv(w[i])); }
        }
        lemma_sum_scale(w.drop_last(), w2.drop_last(), c);
        assert(rv(w2.last()) == c * rv(w.last())) by { assert(rv(w2[w.len() - 1]) == c * rv(w[w.len() - 1])); }
        let (a, b) = (seq_sum(w.drop_last()), rv(w.last()));
        assert(c * (a + b) == c * a + c * b) by(nonlinear_arith);
    }
}
pub proof fn lemma_sum_shift(w: Seq<f64>, w2: Seq<f64>, k: real)
    requires shifted(w, w2, k)
    ensures seq_sum(w2) == seq_sum(w) + (w.len() as real) * k //#C14
    decreases w.len()
{
    if w.len() == 0 {
        assert(0real * k == 0real) by(nonlinear_arith);
    } else {
        assert(shifted(w.drop_last(), w2.drop_last(), k)) by {
            assert forall|i: int| 0 <= i < w.len() - 1 implies rv(#[trigger] w2.drop_last()[i]) == rv(w.drop_last()[i]) + k by { assert(rv(w2[i]) == rv(w[i]) + k); }
        }
        lemma_sum_shift(w.drop_last(), w2.drop_last(), k);
        assert(rv(w2.last()) == rv(w.last()) + k) by { assert(rv(w2[w.len() - 1]) == rv(w[w.len() - 1]) + k); }
        let n1 = (w.len() - 1) as real;
        assert((n1 + 1real) * k == n1 * k + k) by(nonlinear_arith);
    }
}
pub proof fn lemma_div_scale(a: real, n: real, c: real)
    requires n != 0real
    ensures (c * a) / n == c * (a / n)
{
    assert((c * a) / n == c * (a / n)) by(nonlinear_arith) requires n != 0real;
}
// SMA (and BB.average, CCI's SMA part): mean scales with the unit and shifts with the offset
pub proof fn lemma_mean_scale(w: Seq<f64>, w2: Seq<f64>, c: real)
    requires scaled(w, w2, c), w.len() >= 1
    ensures seq_mean(w2) == c * seq_mean(w) //#C14
{
    lemma_sum_scale(w, w2, c);
    lemma_div_scale(seq_sum(w), w.len() as real, c);
}
pub proof fn lemma_mean_shift(w: Seq<f64>, w2: Seq<f64>, k: real)
    requires shifted(w, w2, k), w.len() >= 1
    ensures seq_mean(w2) == seq_mean(w) + k //#C14
{
    lemma_sum_shift(w, w2, k);
    let (s, n) = (seq_sum(w), w.len() as real);
    assert((s + n * k) / n == s / n + k) by(nonlinear_arith) requires n >= 1real;
}

// ---- WMA ------------------------------------------------------------------------------------------
pub proof fn lemma_wsum_scale(w: Seq<f64>, w2: Seq<f64>, c: real)
    requires scaled(w, w2, c)
    ensures seq_wsum(w2) == c * seq_wsum(w) //#C14
    decreases w.len()
{
    if w.len() == 0 {
        assert(c * 0real == 0real) by(nonlinear_arith);
    } else {
        assert(scaled(w.drop_last(), w2.drop_last(), c)) by {
            assert forall|i: int| 0 <= i < w.len() - 1 implies rv(#[trigger] w2.drop_last()[i]) == c * rv(w.drop_last()[i]) by { assert(rv(w2[i]) == c * rv(w[i])); }
        }
        lemma_wsum_scale(w.drop_last(), w2.drop_last(), c);
        assert(rv(w2.last()) == c * rv(w.last())) by { assert(rv(w2[w.len() - 1]) == c * rv(w[w.len() - 1])); }
        let (a, b, n) = (seq_wsum(w.drop_last()), rv(w.last()), w.len() as real);
        assert(c * (a + n * b) == c * a + n * (c * b)) by(nonlinear_arith);
    }
}
pub proof fn lemma_wmean_scale(w: Seq<f64>, w2: Seq<f64>, c: real)
    requires scaled(w, w2, c), w.len() >= 1
    ensures seq_wmean(w2) == c * seq_wmean(w) //#C14
{
    lemma_wsum_scale(w, w2, c);
    lemma_tri_pos(w.len() as real);
    lemma_div_scale(seq_wsum(w), tri(w.len() as real), c);
}

// ---- SD / MAD: dispersion scales by |c| and ignores shifts -----------------------------------------
pub proof fn lemma_sqdev_scale(w: Seq<f64>, w2: Seq<f64>, c: real, mu: real)
    requires scaled(w, w2, c)
    ensures seq_sqdev(w2, c * mu) == c * c * seq_sqdev(w, mu) //#C14
    decreases w.len()
{
    if w.len() == 0 {
        assert(c * c * 0real == 0real) by(nonlinear_arith);
    } else {
        assert(scaled(w.drop_last(), w2.drop_last(), c)) by {
            assert forall|i: int| 0 <= i < w.len() - 1 implies rv(#[trigger] w2.drop_last()[i]) == c * rv(w.drop_last()[i]) by { assert(rv(w2[i]) == c * rv(w[i])); }
        }
        lemma_sqdev_scale(w.drop_last(), w2.drop_last(), c, mu);
        assert(rv(w2.last()) == c * rv(w.last())) by { assert(rv(w2[w.len() - 1]) == c * rv(w[w.len() - 1])); }
        let (a, x) = (seq_sqdev(w.drop_last(), mu), rv(w.last()));
        assert((c * x - c * mu) * (c * x - c * mu) == c * c * ((x - mu) * (x - mu))) by(nonlinear_arith);
        let d = (x - mu) * (x - mu);
        assert(c * c * (a + d) == c * c * a + c * c * d) by(nonlinear_arith);
    }
}
pub proof fn lemma_sqdev_shift(w: Seq<f64>, w2: Seq<f64>, k: real, mu: real)
    requires shifted(w, w2, k)
    ensures seq_sqdev(w2, mu + k) == seq_sqdev(w, mu) //#C14
    decreases w.len()
{
    if w.len() > 0 {
        assert(shifted(w.drop_last(), w2.drop_last(), k)) by {
            assert forall|i: int| 0 <= i < w.len() - 1 implies rv(#[trigger] w2.drop_last()[i]) == rv(w.drop_last()[i]) + k by { assert(rv(w2[i]) == rv(w[i]) + k); }
        }
        lemma_sqdev_shift(w.drop_last(), w2.drop_last(), k, mu);
        assert(rv(w2.last()) == rv(w.last()) + k) by { assert(rv(w2[w.len() - 1]) == rv(w[w.len() - 1]) + k); }
    }
}
// population variance scales by c^2 (so SD by c for c > 0) and is shift-invariant
pub proof fn lemma_popvar_scale(w: Seq<f64>, w2: Seq<f64>, c: real)
    requires scaled(w, w2, c), w.len() >= 1
    ensures seq_popvar(w2) == c * c * seq_popvar(w) //#C14
{
    lemma_mean_scale(w, w2, c);
    lemma_sqdev_scale(w, w2, c, seq_mean(w));
    lemma_div_scale(seq_sqdev(w, seq_mean(w)), w.len() as real, c * c);
}
pub proof fn lemma_popvar_shift(w: Seq<f64>, w2: Seq<f64>, k: real)
    requires shifted(w, w2, k), w.len() >= 1
    ensures seq_popvar(w2) == seq_popvar(w) //#C14
{
    lemma_mean_shift(w, w2, k);
    lemma_sqdev_shift(w, w2, k, seq_mean(w));
}
pub proof fn lemma_absdev_scale(w: Seq<f64>, w2: Seq<f64>, c: real, mu: real)
    requires scaled(w, w2, c), c > 0real
    ensures seq_absdev(w2, c * mu) == c * seq_absdev(w, mu) //#C14
    decreases w.len()
{
    if w.len() == 0 {
        assert(c * 0real == 0real) by(nonlinear_arith);
    } else {
        assert(scaled(w.drop_last(), w2.drop_last(), c)) by {
            assert forall|i: int| 0 <= i < w.len() - 1 implies rv(#[trigger] w2.drop_last()[i]) == c * rv(w.drop_last()[i]) by { assert(rv(w2[i]) == c * rv(w[i])); }
        }
        lemma_absdev_scale(w.drop_last(), w2.drop_last(), c, mu);
        assert(rv(w2.last()) == c * rv(w.last())) by { assert(rv(w2[w.len() - 1]) == c * rv(w[w.len() - 1])); }
        let (a, x) = (seq_absdev(w.drop_last(), mu), rv(w.last()));
        assert(rabs(c * x - c * mu) == c * rabs(x - mu)) by(nonlinear_arith) requires c > 0real;
        let d = rabs(x - mu);
        assert(c * (a + d) == c * a + c * d) by(nonlinear_arith);
    }
}
pub proof fn lemma_absdev_shift(w: Seq<f64>, w2: Seq<f64>, k: real, mu: real)
    requires shifted(w, w2, k)
    ensures seq_absdev(w2, mu + k) == seq_absdev(w, mu) //#C14
    decreases w.len()
{
    if w.len() > 0 {
        assert(shifted(w.drop_last(), w2.drop_last(), k)) by {
            assert forall|i: int| 0 <= i < w.len() - 1 implies rv(#[trigger] w2.drop_last()[i]) == rv(w.drop_last()[i]) + k by { assert(rv(w2[i]) == rv(w[i]) + k); }
        }
        lemma_absdev_shift(w.drop_last(), w2.drop_last(), k, mu);
        assert(rv(w2.last()) == rv(w.last()) + k) by { assert(rv(w2[w.len() - 1]) == rv(w[w.len() - 1]) + k); }
    }
}
pub proof fn lemma_mad_scale(w: Seq<f64>, w2: Seq<f64>, c: real)
    requires scaled(w, w2, c), c > 0real, w.len() >= 1
    ensures seq_mad(w2) == c * seq_mad(w) //#C14
{
    lemma_mean_scale(w, w2, c);
    lemma_absdev_scale(w, w2, c, seq_mean(w));
    lemma_div_scale(seq_absdev(w, seq_mean(w)), w.len() as real, c);
}
pub proof fn lemma_mad_shift(w: Seq<f64>, w2: Seq<f64>, k: real)
    requires shifted(w, w2, k), w.len() >= 1
    ensures seq_mad(w2) == seq_mad(w) //#C14
{
    lemma_mean_shift(w, w2, k);
    lemma_absdev_shift(w, w2, k, seq_mean(w));
}

// ---- EMA family: one step is linear in (state, input) ------------------------------------------------
pub proof fn lemma_ema_step_scale(fresh: bool, cur: real, alpha: real, x: real, c: real)
    ensures ema_step(fresh, c * cur, alpha, c * x) == c * ema_step(fresh, cur, alpha, x) //#C14
{
    assert(alpha * (c * x) + (1real - alpha) * (c * cur) == c * (alpha * x + (1real - alpha) * cur)) by(nonlinear_arith);
}
pub proof fn lemma_ema_step_shift(fresh: bool, cur: real, alpha: real, x: real, k: real)
    ensures ema_step(fresh, cur + k, alpha, x + k) == ema_step(fresh, cur, alpha, x) + k //#C14
{
    assert(alpha * (x + k) + (1real - alpha) * (cur + k) == alpha * x + (1real - alpha) * cur + k) by(nonlinear_arith);
}
// MACD line and histogram: differences of EMAs scale, and a common shift cancels in fast - slow
pub proof fn lemma_macd_scale(f: real, s: real, c: real)
    ensures c * f - c * s == c * (f - s) //#C14
{
    assert(c * f - c * s == c * (f - s)) by(nonlinear_arith);
}
// TrueRange: scales with the unit, ignores shifts (scalar and bar form, given the previous close moved the same way)
pub proof fn lemma_rabs_scale(x: real, c: real)
    requires c > 0real
    ensures rabs(c * x) == c * rabs(x)
{
    assert(rabs(c * x) == c * rabs(x)) by(nonlinear_arith) requires c > 0real;
}
pub proof fn lemma_tr_bar_scale(h: real, l: real, p: real, c: real)
    requires c > 0real
    ensures rmax(rmax(c * h - c * l, rabs(c * h - c * p)), rabs(c * l - c * p)) == c * rmax(rmax(h - l, rabs(h - p)), rabs(l - p)) //#C14
{
    lemma_rabs_scale(h - p, c);
    lemma_rabs_scale(l - p, c);
    assert(c * h - c * l == c * (h - l) && c * h - c * p == c * (h - p) && c * l - c * p == c * (l - p)) by(nonlinear_arith);
    let (a, b, d) = (h - l, rabs(h - p), rabs(l - p));
    assert(rmax(c * a, c * b) == c * rmax(a, b)) by(nonlinear_arith) requires c > 0real;
    let m = rmax(a, b);
    assert(rmax(c * m, c * d) == c * rmax(m, d)) by(nonlinear_arith) requires c > 0real;
}
pub proof fn lemma_tr_bar_shift(h: real, l: real, p: real, k: real)
    ensures rmax(rmax((h + k) - (l + k), rabs((h + k) - (p + k))), rabs((l + k) - (p + k))) == rmax(rmax(h - l, rabs(h - p)), rabs(l - p)) //#C14
{}

// ---- dimensionless ratios are invariant ----------------------------------------------------------------
pub proof fn lemma_fast_scale(lo: real, hi: real, x: real, c: real)
    requires c > 0real
    ensures fast_formula(c * lo, c * hi, c * x) == fast_formula(lo, hi, x) //#C14
{
    if lo != hi {
        assert(c * lo != c * hi) by(nonlinear_arith) requires c > 0real, lo != hi;
        assert(c * x - c * lo == c * (x - lo) && c * hi - c * lo == c * (hi - lo)) by(nonlinear_arith);
        let (a, b) = (x - lo, hi - lo);
        assert((c * a) / (c * b) == a / b) by(nonlinear_arith) requires c > 0real, b != 0real;
    } else {
        assert(c * lo == c * hi);
    }
}
pub proof fn lemma_fast_shift(lo: real, hi: real, x: real, k: real)
    ensures fast_formula(lo + k, hi + k, x + k) == fast_formula(lo, hi, x) //#C14
{}
pub proof fn lemma_roc_scale(x: real, p: real, c: real)
    requires c > 0real, p != 0real
    ensures roc_formula(c * x, c * p) == roc_formula(x, p) //#C14
{
    assert(c * x - c * p == c * (x - p)) by(nonlinear_arith);
    let a = x - p;
    assert((c * a) / (c * p) == a / p) by(nonlinear_arith) requires c > 0real, p != 0real;
}
pub proof fn lemma_rsi_like_ratio_scale(u: real, d: real, c: real)
    requires c > 0real, u + d != 0real
    ensures mfi_formula(c * u, c * d) == mfi_formula(u, d) //#C14
{
    assert(c * u + c * d == c * (u + d)) by(nonlinear_arith);
    let s = u + d;
    assert((c * u) / (c * s) == u / s) by(nonlinear_arith) requires c > 0real, s != 0real;
}

// ---- Minimum / Maximum: order is preserved by positive scaling and by shifts; Max(x) = -Min(-x) -----------
pub open spec fn negated(w: Seq<f64>, w2: Seq<f64>) -> bool {
    w.len() == w2.len() && forall|i: int| 0 <= i < w.len() ==> fin(#[trigger] w[i]) && fin(w2[i]) && rv(w2[i]) == 0real - rv(w[i])
}
pub proof fn lemma_max_is_neg_min(w: Seq<f64>, w2: Seq<f64>, i: int)
    requires negated(w, w2), 0 <= i < w.len(), is_least(w2[i], w2)
    ensures is_greatest(w[i], w) //#C14
{
    let v = w[i];
    let v2 = w2[i];
    assert(fin(v) && fin(v2) && rv(v2) == 0real - rv(v));
    assert forall|j: int| 0 <= j < w.len() implies !ext_lt(v, #[trigger] w[j]) by {
        let (x, x2) = (w[j], w2[j]);
        assert(fin(x) && fin(x2) && rv(x2) == 0real - rv(x));
        assert(!ext_lt(x2, v2));
    }
    assert(exists|k: int| 0 <= k < w.len() && w[k] == v);
}
pub open spec fn all_fin_scaled(w: Seq<f64>, w2: Seq<f64>, c: real) -> bool {
    scaled(w, w2, c) && all_fin(w) && all_fin(w2)
}
pub proof fn lemma_least_scale(w: Seq<f64>, w2: Seq<f64>, c: real, i: int)
    requires all_fin_scaled(w, w2, c), c > 0real, 0 <= i < w.len(), is_least(w[i], w)
    ensures is_least(w2[i], w2) //#C14
{
    assert forall|j: int| 0 <= j < w2.len() implies !ext_lt(#[trigger] w2[j], w2[i]) by {
        assert(!ext_lt(w[j], w[i]));
        assert(fin(w[j]) && fin(w[i]) && fin(w2[j]) && fin(w2[i]));
        let (a, b) = (rv(w[j]), rv(w[i]));
        assert(rv(w2[j]) == c * a && rv(w2[i]) == c * b);
        assert(c * a >= c * b) by(nonlinear_arith) requires c > 0real, a >= b;
    }
}
pub proof fn lemma_greatest_scale(w: Seq<f64>, w2: Seq<f64>, c: real, i: int)
    requires all_fin_scaled(w, w2, c), c > 0real, 0 <= i < w.len(), is_greatest(w[i], w)
    ensures is_greatest(w2[i], w2) //#C14
{
    assert forall|j: int| 0 <= j < w2.len() implies !ext_lt(w2[i], #[trigger] w2[j]) by {
        assert(!ext_lt(w[i], w[j]));
        assert(fin(w[j]) && fin(w[i]) && fin(w2[j]) && fin(w2[i]));
        let (a, b) = (rv(w[j]), rv(w[i]));
        assert(rv(w2[j]) == c * a && rv(w2[i]) == c * b);
        assert(c * a <= c * b) by(nonlinear_arith) requires c > 0real, a <= b;
    }
}
} // mod lemmas_covariance
