// prelude.rs -- woven verbatim into `pub mod vp { ... }` of every Verus run.
// TRUSTED BASE: every `axiom fn`, `assume_specification` and `external_body` below is an assumption
// (DESIGN.md section 4: T1 floats never trap, T2 ideal arithmetic on finite values, T3 order,
// T4 literals, T5 std specs).  Everything else in this file is proved.
pub use vstd::std_specs::ops::*;
pub use vstd::std_specs::cmp::*;
use core::cmp::Ordering;

// ---------------------------------------------------------------------------------------------
// f64 as extended reals:  fin(x) with value rv(x)  |  pinf(x)  |  ninf(x)  |  NaN (none of these)
// ---------------------------------------------------------------------------------------------
pub uninterp spec fn rv(x: f64) -> real;
pub uninterp spec fn fin(x: f64) -> bool;
pub uninterp spec fn pinf(x: f64) -> bool;
pub uninterp spec fn ninf(x: f64) -> bool;
pub open spec fn ord(x: f64) -> bool { fin(x) || pinf(x) || ninf(x) }

pub broadcast axiom fn ax_class_excl(a: f64)
    ensures #![trigger pinf(a)] #![trigger ninf(a)]
        !(fin(a) && pinf(a)) && !(fin(a) && ninf(a)) && !(pinf(a) && ninf(a));

// T1: float operators never trap and are functions of their operands
pub broadcast axiom fn ax_add_req(a: f64, b: f64) ensures #[trigger] a.add_req(b);
pub broadcast axiom fn ax_sub_req(a: f64, b: f64) ensures #[trigger] a.sub_req(b);
pub broadcast axiom fn ax_mul_req(a: f64, b: f64) ensures #[trigger] a.mul_req(b);
pub broadcast axiom fn ax_div_req(a: f64, b: f64) ensures #[trigger] a.div_req(b);
#[verifier::allow(broadcast_without_trigger)]
pub broadcast axiom fn ax_obeys()
    ensures <f64 as AddSpec>::obeys_add_spec(), <f64 as SubSpec>::obeys_sub_spec(),
        <f64 as DivSpec>::obeys_div_spec(), <f64 as MulSpec>::obeys_mul_spec(),
        <f64 as PartialOrdSpec>::obeys_partial_cmp_spec(), <f64 as PartialEqSpec>::obeys_eq_spec();

// T2: ideal (real) arithmetic on finite values.  Nothing is said about x / 0 or non-finite operands.
pub broadcast axiom fn ax_add_val(a: f64, b: f64)
    ensures fin(a) && fin(b) ==> fin(#[trigger] a.add_spec(b)) && rv(a.add_spec(b)) == rv(a) + rv(b);
pub broadcast axiom fn ax_sub_val(a: f64, b: f64)
    ensures fin(a) && fin(b) ==> fin(#[trigger] a.sub_spec(b)) && rv(a.sub_spec(b)) == rv(a) - rv(b);
pub broadcast axiom fn ax_mul_val(a: f64, b: f64)
    ensures fin(a) && fin(b) ==> fin(#[trigger] a.mul_spec(b)) && rv(a.mul_spec(b)) == rv(a) * rv(b);
pub broadcast axiom fn ax_div_val(a: f64, b: f64)
    ensures fin(a) && fin(b) && rv(b) != 0real ==> fin(#[trigger] a.div_spec(b)) && rv(a.div_spec(b)) == rv(a) / rv(b);

// T3: comparisons are the order of the extended reals; NaN is unordered
pub open spec fn ext_lt(a: f64, b: f64) -> bool {
    if fin(a) && fin(b) { rv(a) < rv(b) } else { (ninf(a) && (fin(b) || pinf(b))) || (fin(a) && pinf(b)) }
}
pub open spec fn ext_le(a: f64, b: f64) -> bool { ord(a) && ord(b) && !ext_lt(b, a) }
pub open spec fn ext_eq(a: f64, b: f64) -> bool {
    if fin(a) && fin(b) { rv(a) == rv(b) } else { (pinf(a) && pinf(b)) || (ninf(a) && ninf(b)) }
}
pub broadcast axiom fn ax_cmp(a: f64, b: f64)
    ensures (#[trigger] a.partial_cmp_spec(&b)) ==
        (if !(ord(a) && ord(b)) { None::<Ordering> }
         else if ext_lt(a, b) { Some(Ordering::Less) }
         else if ext_lt(b, a) { Some(Ordering::Greater) }
         else { Some(Ordering::Equal) });
pub broadcast axiom fn ax_eq(a: f64, b: f64)
    ensures (#[trigger] a.eq_spec(&b)) == (ord(a) && ord(b) && ext_eq(a, b));

pub broadcast group f64_axioms {
    ax_class_excl, ax_add_req, ax_sub_req, ax_mul_req, ax_div_req, ax_obeys,
    ax_add_val, ax_sub_val, ax_mul_val, ax_div_val, ax_cmp, ax_eq,
    ax_abs, ax_max, ax_min, ax_sqrt, ax_neg, ax_sign_pos, ax_boxed_f64_len,
}

// T4: literals
pub axiom fn ax_lit() ensures
    fin(0.0f64), rv(0.0f64) == 0real,
    fin(1.0f64), rv(1.0f64) == 1real,
    fin(2.0f64), rv(2.0f64) == 2real,
    fin(3.0f64), rv(3.0f64) == 3real,
    fin(50.0f64), rv(50.0f64) == 50real,
    fin(100.0f64), rv(100.0f64) == 100real,
    fin(0.1f64), rv(0.1f64) * 10real == 1real,
    fin(0.015f64), rv(0.015f64) * 200real == 3real;

// T2/T5: rewritten constructs (R1, R2, R4) and std methods
#[verifier::external_body]
pub fn usize_as_f64(n: usize) -> (r: f64) ensures fin(r), rv(r) == n as real { n as f64 }

pub uninterp spec fn INF() -> f64;
pub uninterp spec fn NEG_INF() -> f64;
pub axiom fn ax_inf() ensures pinf(INF()), ninf(NEG_INF()), !fin(INF()), !fin(NEG_INF()), !ninf(INF()), !pinf(NEG_INF());
#[verifier::external_body]
pub fn f64_infinity() -> (r: f64) ensures r == INF() { f64::INFINITY }
#[verifier::external_body]
pub fn f64_neg_infinity() -> (r: f64) ensures r == NEG_INF() { f64::NEG_INFINITY }

// other f64 associated constants a change to the code might introduce (R2): only their sign class is assumed
#[verifier::external_body]
pub fn f64_epsilon() -> (r: f64) ensures fin(r), rv(r) > 0real { f64::EPSILON }
#[verifier::external_body]
pub fn f64_max_value() -> (r: f64) ensures fin(r), rv(r) > 0real { f64::MAX }
#[verifier::external_body]
pub fn f64_min_value() -> (r: f64) ensures fin(r), rv(r) < 0real { f64::MIN }
#[verifier::external_body]
pub fn f64_min_positive() -> (r: f64) ensures fin(r), rv(r) > 0real { f64::MIN_POSITIVE }
#[verifier::external_body]
pub fn f64_nan() -> (r: f64) ensures !ord(r) { f64::NAN }

pub uninterp spec fn neg_spec(x: f64) -> f64;
#[verifier::external_body]
pub fn f64_neg(x: f64) -> (r: f64) ensures r == neg_spec(x) { -x }
pub broadcast axiom fn ax_neg(x: f64) ensures fin(x) ==> fin(#[trigger] neg_spec(x)) && rv(neg_spec(x)) == 0real - rv(x);

pub open spec fn rabs(x: real) -> real { if x >= 0real { x } else { 0real - x } }
pub open spec fn rmax(x: real, y: real) -> real { if x >= y { x } else { y } }
pub open spec fn rmin(x: real, y: real) -> real { if x <= y { x } else { y } }

pub uninterp spec fn abs_spec(x: f64) -> f64;
pub assume_specification [f64::abs] (x: f64) -> (r: f64) ensures r == abs_spec(x);
pub broadcast axiom fn ax_abs(x: f64) ensures fin(x) ==> fin(#[trigger] abs_spec(x)) && rv(abs_spec(x)) == rabs(rv(x));

pub uninterp spec fn max_spec(x: f64, y: f64) -> f64;
pub assume_specification [f64::max] (x: f64, y: f64) -> (r: f64) ensures r == max_spec(x, y);
pub broadcast axiom fn ax_max(x: f64, y: f64)
    ensures fin(x) && fin(y) ==> fin(#[trigger] max_spec(x, y)) && rv(max_spec(x, y)) == rmax(rv(x), rv(y));

pub uninterp spec fn min_spec(x: f64, y: f64) -> f64;
pub assume_specification [f64::min] (x: f64, y: f64) -> (r: f64) ensures r == min_spec(x, y);
pub broadcast axiom fn ax_min(x: f64, y: f64)
    ensures fin(x) && fin(y) ==> fin(#[trigger] min_spec(x, y)) && rv(min_spec(x, y)) == rmin(rv(x), rv(y));

pub uninterp spec fn sqrt_spec(x: f64) -> f64;
pub assume_specification [f64::sqrt] (x: f64) -> (r: f64) ensures r == sqrt_spec(x);
pub broadcast axiom fn ax_sqrt(x: f64)
    ensures fin(x) && rv(x) >= 0real ==> fin(#[trigger] sqrt_spec(x)) && rv(sqrt_spec(x)) >= 0real
        && rv(sqrt_spec(x)) * rv(sqrt_spec(x)) == rv(x)
        && (rv(x) == 0real ==> rv(sqrt_spec(x)) == 0real);   // consequence of r*r == 0 in R; stated so that no nonlinear step is needed

pub uninterp spec fn sign_pos_spec(x: f64) -> bool;
pub assume_specification [f64::is_sign_positive] (x: f64) -> (r: bool) ensures r == sign_pos_spec(x);
pub broadcast axiom fn ax_sign_pos(x: f64)
    ensures fin(x) ==> ((#[trigger] sign_pos_spec(x)) ==> rv(x) >= 0real) && (!sign_pos_spec(x) ==> rv(x) <= 0real);

pub assume_specification<T, A: std::alloc::Allocator> [std::vec::Vec::<T, A>::into_boxed_slice] (v: std::vec::Vec<T, A>) -> (r: std::boxed::Box<[T], A>)
    ensures r@ == v@;

// T5: an allocated slice of 8-byte elements has at most isize::MAX / 8 elements (Layout size <= isize::MAX);
// `vec![x; n]` with a larger n panics with "capacity overflow" before any indicator exists.
pub broadcast axiom fn ax_boxed_f64_len(b: Box<[f64]>)
    ensures #[trigger] b@.len() <= isize::MAX / 8;

// ---------------------------------------------------------------------------------------------
// ring-buffer theory (pure spec, proved)
// ---------------------------------------------------------------------------------------------
pub open spec fn all_fin(s: Seq<f64>) -> bool { forall|i: int| 0 <= i < s.len() ==> fin(#[trigger] s[i]) }

pub open spec fn ring_ok(d: Seq<f64>, index: int, count: int) -> bool {
    &&& d.len() >= 1 && 0 <= index < d.len() && 0 <= count <= d.len()
    &&& (count < d.len() ==> index == count)
}
pub open spec fn ring_win(d: Seq<f64>, index: int, count: int) -> Seq<f64> {
    if count < d.len() { d.subrange(0, count) } else { d.subrange(index, d.len() as int) + d.subrange(0, index) }
}
pub open spec fn push_trunc(w: Seq<f64>, x: f64, n: int) -> Seq<f64> {
    if w.len() < n { w.push(x) } else { w.subrange(1, w.len() as int).push(x) }
}
pub open spec fn next_index(index: int, n: int) -> int { if index + 1 < n { index + 1 } else { 0 } }
pub open spec fn next_count(count: int, n: int) -> int { if count < n { count + 1 } else { count } }

pub proof fn lemma_ring_step(d: Seq<f64>, index: int, count: int, x: f64)
    requires ring_ok(d, index, count)
    ensures
        ring_ok(d.update(index, x), next_index(index, d.len() as int), next_count(count, d.len() as int)),
        ring_win(d.update(index, x), next_index(index, d.len() as int), next_count(count, d.len() as int))
            =~= push_trunc(ring_win(d, index, count), x, d.len() as int),
        ring_win(d, index, count).len() == count,
        count == d.len() ==> ring_win(d, index, count)[0] == d[index],
        all_fin(d) ==> all_fin(ring_win(d, index, count)),
{
}

pub open spec fn zeros_from(d: Seq<f64>, count: int) -> bool {
    forall|i: int| count <= i < d.len() ==> rv(#[trigger] d[i]) == 0real && fin(d[i])
}

// sums -----------------------------------------------------------------------------------------
pub open spec fn seq_sum(s: Seq<f64>) -> real decreases s.len() {
    if s.len() == 0 { 0real } else { seq_sum(s.drop_last()) + rv(s.last()) }
}
pub proof fn lemma_sum_push(s: Seq<f64>, x: f64)
    ensures seq_sum(s.push(x)) == seq_sum(s) + rv(x)
{
    assert(s.push(x).drop_last() =~= s);
}
pub proof fn lemma_sum_drop_first(s: Seq<f64>)
    requires s.len() >= 1
    ensures seq_sum(s.subrange(1, s.len() as int)) == seq_sum(s) - rv(s[0])
    decreases s.len()
{
    if s.len() == 1 {
        assert(s.drop_last() =~= Seq::<f64>::empty());
        assert(s.subrange(1, 1) =~= Seq::<f64>::empty());
    } else {
        lemma_sum_drop_first(s.drop_last());
        assert(s.subrange(1, s.len() as int).drop_last() =~= s.drop_last().subrange(1, s.len() - 1));
    }
}
// the sum of the window after one push_trunc step
pub proof fn lemma_sum_step(w: Seq<f64>, x: f64, n: int)
    requires n >= 1, w.len() <= n
    ensures seq_sum(push_trunc(w, x, n)) == seq_sum(w) + rv(x) - (if w.len() < n { 0real } else { rv(w[0]) })
{
    if w.len() < n { lemma_sum_push(w, x); }
    else { lemma_sum_drop_first(w); lemma_sum_push(w.subrange(1, w.len() as int), x); }
}

// division helpers (<= 3 variables: native nonlinear_arith is reliable here) -----------------------
pub proof fn alg_div_cancel(a: real, b: real)
    requires b != 0real
    ensures (a / b) * b == a
{ assert((a / b) * b == a) by(nonlinear_arith) requires b != 0real; }
pub proof fn alg_div_nonneg(a: real, b: real)
    requires b > 0real, a >= 0real
    ensures a / b >= 0real
{ assert(a / b >= 0real) by(nonlinear_arith) requires b > 0real, a >= 0real; }
pub proof fn alg_div_unique(a: real, b: real, q: real)
    requires b != 0real, q * b == a
    ensures q == a / b
{ assert(q == a / b) by(nonlinear_arith) requires b != 0real, q * b == a; }
pub proof fn alg_div_le(a: real, b: real)
    requires b > 0real, 0real <= a <= b
    ensures 0real <= a / b <= 1real
{ assert(0real <= a / b <= 1real) by(nonlinear_arith) requires b > 0real, 0real <= a <= b; }

// history theory (C01 / C17): folding push_trunc from the empty window -------------------------------
pub open spec fn win_of(h: Seq<f64>, n: int) -> Seq<f64> decreases h.len() {
    if h.len() == 0 { Seq::empty() } else { push_trunc(win_of(h.drop_last(), n), h.last(), n) }
}
pub open spec fn last_k(h: Seq<f64>, k: int) -> Seq<f64> { h.subrange(h.len() - k, h.len() as int) }
pub open spec fn min2(a: int, b: int) -> int { if a < b { a } else { b } }
