/// Returns the largest of 3 given numbers.
pub fn max3(a: f64, b: f64, c: f64) -> f64 {
    a.max(b).max(c)
}

#[cfg(test)]
mod tests {
    use super::*;

    #[test]
    fn test_max3() {
        assert_eq!(max3(3.0, 2.0, 1.0), 3.0);
        assert_eq!(max3(2.0, 3.0, 1.0), 3.0);
        assert_eq!(max3(2.0, 1.0, 3.0), 3.0);
    }
}
