use std::fmt;

use crate::errors::{Result, TaError};
use crate::{Close, Next, Period, Reset};
#[cfg(feature = "serde")]
use serde::{Deserialize, Serialize};

/// An exponential moving average (EMA), also known as an exponentially weighted moving average
/// (EWMA).
///
/// It is a type of infinite impulse response filter that applies weighting factors which decrease exponentially.
/// The weighting for each older datum decreases exponentially, never reaching zero.
///
/// # Formula
///
/// ![EMA formula](https://wikimedia.org/api/rest_v1/media/math/render/svg/05d06bdbee2c14031fd91ead6f5f772aec1ec964)
///
/// Where:
///
/// * _EMA<sub>t</sub>_ - is the value of the EMA at any time period _t_.
/// * _EMA<sub>t-1</sub>_ - is the value of the EMA at the previous period _t-1_.
/// * _p<sub>t</sub>_ - is the input value at a time period t.
/// * _α_ - is the coefficient that represents the degree of weighting decrease, a constant smoothing factor between 0 and 1.
///
/// _α_ is calculated with the following formula:
///
/// ![alpha formula](https://wikimedia.org/api/rest_v1/media/math/render/svg/d9f6258e152db0644af548972bd6c50a8becf7ee)
///
/// Where:
///
/// * _period_ - number of periods
///
/// # Parameters
///
/// * _period_ - number of periods (integer greater than 0)
///
/// # Example
///
/// ```
/// use ta::indicators::ExponentialMovingAverage;
/// use ta::Next;
///
/// let mut ema = ExponentialMovingAverage::new(3).unwrap();
/// assert_eq!(ema.next(2.0), 2.0);
/// assert_eq!(ema.next(5.0), 3.5);
/// assert_eq!(ema.next(1.0), 2.25);
/// assert_eq!(ema.next(6.25), 4.25);
/// ```
///
/// # Links
///
/// * [Exponential moving average, Wikipedia](https://en.wikipedia.org/wiki/Moving_average#Exponential_moving_average)
///

#[doc(alias = "EMA")]
#[cfg_attr(feature = "serde", derive(Serialize, Deserialize))]
#[derive(Debug, Clone)]
pub struct ExponentialMovingAverage {
    period: usize,
    k: f64,
    current: f64,
    is_new: bool,
}

impl ExponentialMovingAverage {
    pub fn new(period: usize) -> Result<Self> {
        match period {
            0 => Err(TaError::InvalidParameter),
            _ => Ok(Self {
                period,
                k: 2.0 / (period as f64 + 1.0),
                current: 0.0,
                is_new: true,
            }),
        }
    }
}

impl Period for ExponentialMovingAverage {
    fn period(&self) -> usize {
        self.period
    }
}

impl Next<f64> for ExponentialMovingAverage {
    type Output = f64;

    fn next(&mut self, input: f64) -> Self::Output {
        if self.is_new {
            self.is_new = false;
            self.current = input;
        } else {
            self.current = self.k * input + (1.0 - self.k) * self.current;
        }
        self.current
    }
}

impl<T: Close> Next<&T> for ExponentialMovingAverage {
    type Output = f64;

    fn next(&mut self, input: &T) -> Self::Output {
        self.next(input.close())
    }
}

impl Reset for ExponentialMovingAverage {
    fn reset(&mut self) {
        self.current = 0.0;
        self.is_new = true;
    }
}

impl Default for ExponentialMovingAverage {
    fn default() -> Self {
        Self::new(9).unwrap()
    }
}

impl fmt::Display for ExponentialMovingAverage {
    fn fmt(&self, f: &mut fmt::Formatter) -> fmt::Result {
        write!(f, "EMA({})", self.period)
    }
}

#[cfg(test)]
mod tests {
    use super::*;
    use crate::test_helper::*;

    test_indicator!(ExponentialMovingAverage);

    #[test]
    fn test_new() {
        assert!(ExponentialMovingAverage::new(0).is_err());
        assert!(ExponentialMovingAverage::new(1).is_ok());
    }

    #[test]
    fn test_next() {
        let mut ema = ExponentialMovingAverage::new(3).unwrap();

        assert_eq!(ema.next(2.0), 2.0);
        assert_eq!(ema.next(5.0), 3.5);
        assert_eq!(ema.next(1.0), 2.25);
        assert_eq!(ema.next(6.25), 4.25);

        let mut ema = ExponentialMovingAverage::new(3).unwrap();
        let bar1 = Bar::new().close(2);
        let bar2 = Bar::new().close(5);
        assert_eq!(ema.next(&bar1), 2.0);
        assert_eq!(ema.next(&bar2), 3.5);
    }

    #[test]
    fn test_reset() {
        let mut ema = ExponentialMovingAverage::new(5).unwrap();

        assert_eq!(ema.next(4.0), 4.0);
        ema.next(10.0);
        ema.next(15.0);
        ema.next(20.0);
        assert_ne!(ema.next(4.0), 4.0);

        ema.reset();
        assert_eq!(ema.next(4.0), 4.0);
    }

    #[test]
    fn test_default() {
        ExponentialMovingAverage::default();
    }

    #[test]
    fn test_display() {
        let ema = ExponentialMovingAverage::new(7).unwrap();
        assert_eq!(format!("{}", ema), "EMA(7)");
    }
}
