use std::fmt;

use crate::errors::{Result, TaError};
use crate::traits::{Close, Next, Period, Reset};
#[cfg(feature = "serde")]
use serde::{Deserialize, Serialize};

/// Kaufman's Efficiency Ratio (ER).
///
/// It is calculated by dividing the price change over a period by the absolute sum of the price movements that occurred to achieve that change.
/// The resulting ratio ranges between 0.0 and 1.0 with higher values representing a more efficient or trending market.
///
/// # Parameters
///
/// * _period_ - number of periods (integer greater than 0)
///
/// # Example
///
/// ```
/// use ta::indicators::EfficiencyRatio;
/// use ta::Next;
///
/// let mut er = EfficiencyRatio::new(4).unwrap();
/// assert_eq!(er.next(10.0), 1.0);
/// assert_eq!(er.next(13.0), 1.0);
/// assert_eq!(er.next(12.0), 0.5);
/// assert_eq!(er.next(13.0), 0.6);
/// assert_eq!(er.next(18.0), 0.8);
/// assert_eq!(er.next(19.0), 0.75);
/// ```

#[doc(alias = "ER")]
#[cfg_attr(feature = "serde", derive(Serialize, Deserialize))]
#[derive(Debug, Clone)]
pub struct EfficiencyRatio {
    period: usize,
    index: usize,
    count: usize,
    deque: Box<[f64]>,
}

impl EfficiencyRatio {
    pub fn new(period: usize) -> Result<Self> {
        match period {
            0 => Err(TaError::InvalidParameter),
            _ => Ok(Self {
                period,
                index: 0,
                count: 0,
                deque: vec![0.0; period].into_boxed_slice(),
            }),
        }
    }
}

impl Period for EfficiencyRatio {
    fn period(&self) -> usize {
        self.period
    }
}

impl Next<f64> for EfficiencyRatio {
    type Output = f64;

    fn next(&mut self, input: f64) -> f64 {
        let first = if self.count >= self.period {
            self.deque[self.index]
        } else {
            self.count += 1;
            self.deque[0]
        };
        self.deque[self.index] = input;

        self.index = if self.index + 1 < self.period {
            self.index + 1
        } else {
            0
        };

        let mut volatility = 0.0;
        let mut previous = first;
        for n in &self.deque[self.index..self.count] {
            volatility += (previous - n).abs();
            previous = *n;
        }
        for n in &self.deque[0..self.index] {
            volatility += (previous - n).abs();
            previous = *n;
        }

        if volatility == 0.0 {
            // No movement at all inside the window: avoid 0/0
            return 1.0;
        }

        (first - input).abs() / volatility
    }
}

impl<T: Close> Next<&T> for EfficiencyRatio {
    type Output = f64;

    fn next(&mut self, input: &T) -> f64 {
        self.next(input.close())
    }
}

impl Reset for EfficiencyRatio {
    fn reset(&mut self) {
        self.index = 0;
        self.count = 0;
        for i in 0..self.period {
            self.deque[i] = 0.0;
        }
    }
}

impl Default for EfficiencyRatio {
    fn default() -> Self {
        Self::new(14).unwrap()
    }
}

impl fmt::Display for EfficiencyRatio {
    fn fmt(&self, f: &mut fmt::Formatter) -> fmt::Result {
        write!(f, "ER({})", self.period)
    }
}

#[cfg(test)]
mod tests {
    use super::*;
    use crate::test_helper::*;

    test_indicator!(EfficiencyRatio);

    #[test]
    fn test_new() {
        assert!(EfficiencyRatio::new(0).is_err());
        assert!(EfficiencyRatio::new(1).is_ok());
    }

    #[test]
    fn test_next() {
        let mut er = EfficiencyRatio::new(3).unwrap();

        assert_eq!(round(er.next(3.0)), 1.0);
        assert_eq!(round(er.next(5.0)), 1.0);
        assert_eq!(round(er.next(2.0)), 0.2);
        assert_eq!(round(er.next(3.0)), 0.0);
        assert_eq!(round(er.next(1.0)), 0.667);
        assert_eq!(round(er.next(3.0)), 0.2);
        assert_eq!(round(er.next(4.0)), 0.2);
        assert_eq!(round(er.next(6.0)), 1.0);
    }

    #[test]
    fn test_reset() {
        let mut er = EfficiencyRatio::new(3).unwrap();

        er.next(3.0);
        er.next(5.0);

        er.reset();

        assert_eq!(round(er.next(3.0)), 1.0);
        assert_eq!(round(er.next(5.0)), 1.0);
        assert_eq!(round(er.next(2.0)), 0.2);
        assert_eq!(round(er.next(3.0)), 0.0);
    }

    #[test]
    fn test_display() {
        let er = EfficiencyRatio::new(17).unwrap();
        assert_eq!(format!("{}", er), "ER(17)");
    }
}
