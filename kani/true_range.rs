fn vk_prev() -> Option<f64> { if kani::any() { Some(kani::any()) } else { None } }

// @harness vk_tr_scalar props=C02,C08,C09 kind=complete tier=quick
// scalar path, bit-precise over all f64: |x - prev| / 0 first; >= 0; exactly 0 on a flat step; prev_close := x
#[kani::proof]
fn vk_tr_scalar() {
    let prev = vk_prev();
    let mut tr = TrueRange { prev_close: prev };
    let x: f64 = kani::any();
    let out = tr.next(x);
    assert!(tr.prev_close.map(|p| p.to_bits()) == Some(x.to_bits()));
    match prev {
        None => assert!(out.to_bits() == 0.0f64.to_bits()),
        Some(p) => {
            let want = (x - p).abs();
            assert!(out.to_bits() == want.to_bits() || (out.is_nan() && want.is_nan()));
            if !out.is_nan() { assert!(out >= 0.0); }
            if x == p && x.is_finite() { assert!(out == 0.0); }
        }
    }
}

struct VkBar { h: f64, l: f64, c: f64 }
impl High for VkBar { fn high(&self) -> f64 { self.h } }
impl Low for VkBar { fn low(&self) -> f64 { self.l } }
impl Close for VkBar { fn close(&self) -> f64 { self.c } }

// @harness vk_tr_bar_first props=C02,C09 kind=complete tier=quick
// first bar: high - low bit-exactly, prev_close := close
#[kani::proof]
fn vk_tr_bar_first() {
    let mut tr = TrueRange { prev_close: None };
    let bar = VkBar { h: kani::any(), l: kani::any(), c: kani::any() };
    let out = tr.next(&bar);
    assert!(tr.prev_close.map(|p| p.to_bits()) == Some(bar.c.to_bits()));
    let want = bar.h - bar.l;
    assert!(out.to_bits() == want.to_bits() || (out.is_nan() && want.is_nan()));
    if bar.l <= bar.h && bar.h.is_finite() && bar.l.is_finite() { assert!(out >= 0.0); }
}

// (a bit-precise harness over the full three-way max of the bar path exceeded 25 minutes of CBMC time and was removed:
// max3 itself is proved by vk_max3_spec, the first-bar and one-price-bar paths below, the formula in R by Verus)

// @harness vk_tr_one_price_bar props=C08,C10 kind=complete tier=quick
// a one-price bar (high = low = x) gives exactly |x - previous close| like the scalar path, and exactly 0 at the previous close
#[kani::proof]
fn vk_tr_one_price_bar() {
    let p: f64 = kani::any();
    let x: f64 = kani::any();
    kani::assume(p.is_finite() && x.is_finite());
    let mut tr = TrueRange { prev_close: Some(p) };
    let mut ts = TrueRange { prev_close: Some(p) };
    let bar = VkBar { h: x, l: x, c: x };
    let out = tr.next(&bar);
    let outs = ts.next(x);
    assert!(out == outs);
    if x == p { assert!(out == 0.0); }
}
