
// @harness vk_mfi_display props=C11 kind=bounded(concrete-parameters) tier=thorough
// Display renders NAME(params): MFI(14) (concrete parameters only)
#[kani::proof]
#[kani::unwind(40)]
fn vk_mfi_display() {
    let ind = MoneyFlowIndex::new(14).unwrap();
    let s = format!("{}", ind);
    assert!(s == "MFI(14)");
}
