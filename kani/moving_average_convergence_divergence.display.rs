
// @harness vk_macd_display props=C11 kind=bounded(concrete-parameters) tier=thorough
// Display renders NAME(params): MACD(12, 26, 9) (concrete parameters only)
#[kani::proof]
#[kani::unwind(40)]
fn vk_macd_display() {
    let ind = MovingAverageConvergenceDivergence::new(12, 26, 9).unwrap();
    let s = format!("{}", ind);
    assert!(s == "MACD(12, 26, 9)");
}
