"""driver: decide one property from the lanes, print verdict lines, write evidence."""
import json
import os
import re
import sys
import time

HERE = os.path.dirname(os.path.dirname(os.path.abspath(__file__)))
sys.path.insert(0, os.path.join(HERE, 'vlib'))
import weave as W
import verus_lane as V
import propmap as PM
import alg as ALG

import importlib
CK = importlib.import_module('check') if 'check' in sys.modules else None


def _ck():
    import __main__
    if hasattr(__main__, 'verus_verdict'):
        return __main__
    import check
    return check


# which lanes a property uses ------------------------------------------------------------------
VERUS_PROPS = ['C01', 'C02', 'C03', 'C04', 'C05', 'C07', 'C08', 'C09', 'C10', 'C11', 'C12', 'C14', 'C15', 'C16', 'C17', 'C18']
THOROUGH_CACHE = {}
LEVEL = {p: 'proof' for p in VERUS_PROPS}
LEVEL.update({'C05': 'other', 'C16': 'proof', 'C19': 'other'})

EXPLAIN = {
    'C05': ('determinism: %s; clones: Kani harnesses (bounded period, all stored values symbolic) show derive(Clone) copies every field bit-exactly '
            'into a distinct allocation, that feeding the clone leaves the original untouched, and that a new instance created after another one was used and '
            'dropped starts from the documented initial state. Thread interleavings are not expressible in Verus/Kani and are not covered.') %
           'every verified next() returns a spec function of (abstract state, input), so no hidden global / thread-local / time / randomness can influence it '
           '(such a body cannot be given the functional postcondition: the obligation fails or the construct is rejected, never a pass)',
}
IDEAL = ('f64 arithmetic is idealised as exact real arithmetic on finite values (prelude axioms T2): no rounding, overflow to infinity '
         'or underflow; the tau(t) tolerances of the property statement are therefore not decided, the exact-arithmetic identity is')


def sanitize(s):
    return re.sub(r'[^A-Za-z0-9_.-]+', '_', s)[:150]


def load(path, default):
    try:
        return json.load(open(path))
    except Exception:
        return default


def write_replay(pid, ob_id, payload):
    ck = _ck()
    os.makedirs(ck.REPLAY, exist_ok=True)
    path = os.path.join(ck.REPLAY, '%s-%s.json' % (pid, sanitize(ob_id)))
    json.dump(payload, open(path, 'w'), indent=1)
    return path


def check(pid, tier):
    ck = _ck()
    t0 = time.time()
    seed = int(os.environ.get('VERIF_SEED', '0') or 0)
    lines = []          # stdout verdict lines
    violations = []
    undecided = []
    known = []
    findings = load(ck.FINDINGS, {'open': [], 'fixed': []})
    ledger = set(load(ck.LEDGER, {'obligations': []})['obligations'])
    cov = {'obligations': 0, 'discharged': 0, 'samples': [], 'back_ends': {}, 'lanes': []}
    assumptions = []
    if pid in VERUS_PROPS:
        r = verus_lane(pid, tier, cov, ledger, findings, assumptions)
        violations += r['violations']
        undecided += r['undecided']
        known += r['known']
    import kani_lane as K
    if pid in K.PROP_HARNESSES and not os.environ.get('VERIF_NO_KANI'):
        r = K.lane(pid, tier, cov, ledger, findings, assumptions)
        violations += r['violations']
        undecided += r['undecided']
        known += r['known']
    if pid == 'C19':
        import traits_lane as T
        r = T.lane(pid, tier, cov, assumptions)
        violations += r['violations']
        undecided += r['undecided']
    wall = time.time() - t0
    for k in known:
        print('KNOWN-FINDING: property=%s %s' % (pid, k))
    for (ob, path, has_input) in violations:
        print('VIOLATION property=%s replay=%s%s' % (pid, path, '' if has_input else ' no-failing-input-found'))
    for u in undecided:
        print('UNDECIDED property=%s %s' % (pid, u))
    ev = {
        'property_id': pid, 'tier': tier if tier in ('quick', 'thorough') else 'quick', 'seed': seed,
        'level': LEVEL.get(pid, 'other'),
        'coverage': cov, 'assumptions': assumptions, 'wall_s': round(wall, 2), 'violations': len(violations),
    }
    cov['checker_cmd'] = cov.get('checker_cmd', 'python3 check.py %s --tier %s' % (pid, tier))
    cov.setdefault('trusted_base', [])
    if ev['level'] == 'other' and not cov.get('explanation'):
        cov['explanation'] = EXPLAIN.get(pid, 'obligations of this property discharged by the lanes listed in coverage.lanes')
    cov['undecided'] = undecided
    os.makedirs(ck.EVID, exist_ok=True)
    json.dump(ev, open(os.path.join(ck.EVID, pid + '.json'), 'w'), indent=1)
    if violations:
        return 1
    if undecided:
        return 2
    if cov['obligations'] == 0:
        print('UNDECIDED property=%s no obligations generated (vacuity guard)' % pid)
        return 2
    print('OK property=%s obligations=%d discharged=%d wall=%.1fs' % (pid, cov['obligations'], cov['discharged'], wall))
    return 0


def verus_lane(pid, tier, cov, ledger, findings, assumptions):
    ck = _ck()
    out = {'violations': [], 'undecided': [], 'known': []}
    try:
        vd = ck.verus_verdict(tier)
    except (W.WeaveError, V.ScanError) as e:
        out['undecided'].append('weaving failed (Verus lane undecided): %s' % str(e)[:300])
        cov['lanes'].append('verus (not run: weaving failed)')
        return out
    w, res, diags, inv, fns = vd['w'], vd['res'], vd['diags'], vd['inv'], vd['fns']
    byid = {f.id: f for f in fns}
    obs = ck.property_obligations(vd, pid)
    # tooling failures ---------------------------------------------------------------------------
    if not res.get('json_ok') and not diags:
        out['undecided'].append('verus produced no result (rc=%s): %s' % (res['rc'], res['raw_err'][-300:].replace('\n', ' ')))
        return out
    if res['rc'] != 0 and not res.get('verified'):
        # verus did not reach / complete verification (front-end rejection, internal error, timeout): nothing is discharged
        out['undecided'].append('verus did not verify anything (rc=%s, verified=%s): %s' % (res['rc'], res.get('verified'),
                                (vd.get('compile_errors') or [res.get('raw_err', '')[-200:].replace('\n', ' ')])[0]))
        return out
    if vd.get('compile_errors'):
        out['undecided'].append('the woven file does not compile (nothing was verified): ' + vd['compile_errors'][0])
        return out
    hard = [d for d in diags if d.fn is None and d.undecided]
    if hard:
        out['undecided'].append('verus front end rejected the woven file: ' + hard[0].message[:200] + ' @ ' + ck.src_loc(vd, hard[0].line))
        return out
    # trusted-base scan -----------------------------------------------------------------------------
    tb = ck.trusted_scan(w.text)
    allow = set(load(ck.TRUSTED, {'items': []})['items'])
    extra = [t for t in tb if t not in allow]
    if extra:
        out['undecided'].append('unlisted trusted items in the woven text: ' + ', '.join(extra[:5]))
    # algebra lane -------------------------------------------------------------------------------
    solvers = [('z3', ['z3', '-T:60'])]
    if tier == 'thorough':
        solvers += [('z3-new', ['z3-new', '-T:60']), ('cvc5', ['cvc5', '--tlimit=60000'])]
    alg_res = ALG.discharge(w.alg_lemmas, solvers=tuple(solvers))
    alg_ok = {}
    for r in alg_res:
        alg_ok.setdefault(r['name'], True)
        if r['result'] != 'unsat':
            alg_ok[r['name']] = False
        if r.get('hyps_sat') not in (None, 'sat'):
            alg_ok[r['name']] = False
    for name, ok in alg_ok.items():
        if not ok:
            out['undecided'].append('algebra lemma %s not discharged: %s' % (name, [x for x in alg_res if x['name'] == name]))
    # thorough tier: vacuity pass (assert(false) must fail in every function) and two more solver seeds on the whole crate
    if tier == 'thorough':
        key = w.sha
        if key not in THOROUGH_CACHE:
            tpath = os.path.join(ck.CACHE, 'thorough-' + key + '.json')
            if os.path.exists(tpath) and not os.environ.get('VERIF_NO_CACHE'):
                THOROUGH_CACHE[key] = json.load(open(tpath))
            else:
                n, vac, vres = ck.vacuity()
                seeds = []
                for sd in (101, 202):
                    r2 = V.run_verus(w.text, rlimit=160, timeout=3000, extra=['--smt-option', 'smt.random_seed=%d' % sd])
                    d2 = V.classify(r2, w.text, fns, ins_lines=set(w.ins_line.keys()))
                    seeds.append({'seed': sd, 'verified': r2.get('verified'), 'errors': r2.get('errors'), 'wall_s': round(r2.get('wall_s', 0), 1),
                                  'failing': sorted(set(d.fn.id for d in d2 if d.fn is not None))})
                THOROUGH_CACHE[key] = {'vacuity': {'functions': n, 'vacuous': vac, 'wall_s': round(vres.get('wall_s', 0), 1)}, 'seeds': seeds}
                os.makedirs(ck.CACHE, exist_ok=True)
                json.dump(THOROUGH_CACHE[key], open(tpath, 'w'))
        th = THOROUGH_CACHE[key]
        cov['thorough'] = th
        if th['vacuity']['vacuous']:
            out['undecided'].append('vacuity: assert(false) verified in ' + ', '.join(th['vacuity']['vacuous'][:5]))
        base_fail = set(d.fn.id for d in diags if d.fn is not None)
        for sr in th['seeds']:
            extra_f = [f for f in sr['failing'] if f not in base_fail]
            if extra_f:
                out['undecided'].append('seed-unstable obligations (fail under seed %d only): %s' % (sr['seed'], ', '.join(extra_f[:5])))
    # failures --------------------------------------------------------------------------------------
    failed = {}      # obligation id -> [diag]
    fn_undecided = {}
    lost = w.lost_hints
    for dg in diags:
        if dg.fn is None:
            continue
        if dg.undecided:
            fn_undecided.setdefault(dg.fn.id, []).append(dg)
            continue
        for k in dg.kinds:
            props = PM.props_for(dg.fn.module, k, dg.fn)
            if pid in props or ('*' in props):
                failed.setdefault('%s#%s' % (dg.fn.id, k), []).append(dg)
    # property obligations
    n_ob = n_ok = 0
    samples = []
    fn_under = set()
    open_f = {(f['property'], f['obligation']): f for f in findings.get('open', [])}
    ledger_fns = set(o.split('#')[0] for o in ledger)
    new_fns = sorted(set(f.name for f in fns if f.mode == 'exec' and f.has_body and not f.external and f.id not in ledger_fns
                         and not (f.trait_impl and f.trait_impl.startswith('decl:'))))
    wlines = w.text.split('\n')
    for fnname in getattr(w, 'dropped_extra_fns', []):
        # a lemma / client function that no longer compiles against the changed crate: its obligations are undecided
        tags = []
        for (oid, props_) in ledger_tags(ledger, fnname):
            if pid in props_:
                tags.append(oid)
        if tags:
            out['undecided'].append('%s: does not compile against the current crate (removed from this run): undecided' % tags[0])
    # modules whose struct definitions differ from the baseline: the contracts' abstraction (shape_ok / num_ok / window) is defined
    # over the fields, so a failure there means "the proof no longer applies", not "the property is violated"
    repr_changed = set()
    try:
        import layout as LAY
        for rel_, names_ in getattr(w, 'struct_files', {}).items():
            bp = os.path.join(ck.BASELINE_SRC, rel_)
            cp = os.path.join(ck.REPO, 'src', rel_)
            if os.path.exists(bp) and os.path.exists(cp) and rel_ not in getattr(w, 'substituted', []):
                def fields_of(path):
                    t = open(path).read()
                    m_ = V.mask(t)
                    res_ = {}
                    for it_ in V.split_items(t, m_, 0, len(t)):
                        if it_.kind == 'struct' and it_.body_lo >= 0:
                            res_[it_.name] = LAY.parse_struct_fields(m_[it_.body_lo:it_.body_hi])
                    return res_
                if fields_of(bp) != fields_of(cp):
                    repr_changed.add(rel_[:-3].replace('/', '::'))
    except Exception as e_:
        out['undecided'].append('struct comparison with the baseline failed: %r' % (e_,))
    if repr_changed:
        cov['modules_with_changed_struct_fields'] = sorted(repr_changed)
    subst_mods = set(r[:-3].replace('/', '::') for r in getattr(w, 'substituted', []))
    if subst_mods:
        cov['modules_replaced_by_baseline_text'] = sorted(subst_mods)
    for (ob_id, fid, kind, clauses, support) in obs:
        f = byid[fid]
        fn_under.add(fid)
        if f.module in subst_mods:
            if support:
                continue        # untagged support lemma of a replaced module: irrelevant for this property
            n_ob += len(clauses)
            msg = 'module %s: its current text cannot be processed together with its contracts (compile error or verifier crash on an unsupported construct); it was replaced by its baseline text so that the other modules could be verified -- its own obligations (%s, ...) are undecided' % (f.module, ob_id)
            if not any(u.startswith('module %s:' % f.module) for u in out['undecided']):
                out['undecided'].append(msg)
            continue
        n_ob += len(clauses)
        bad = failed.get(ob_id)
        und = fn_undecided.get(fid)
        if und and not bad:
            out['undecided'].append('%s: %s' % (ob_id, und[0].message[:160]))
            continue
        if bad:
            dg = bad[0]
            lost_here = [h for h in lost if f.name in h and (f.impl.split(' for ')[-1] in h)]
            key = (pid, ob_id)
            if key in open_f:
                out['known'].append('%s -- %s' % (ob_id, open_f[key].get('what', '')))
                continue
            rel = f.module.replace('::', '/') + '.rs'
            if w.lost_items.get(rel):
                out['undecided'].append('%s fails but contract items lost their anchor in %s (%s): not a verdict' % (ob_id, rel, w.lost_items[rel][0]))
                continue
            if f.module in repr_changed:
                out['undecided'].append('%s fails, but the struct fields of module %s differ from the baseline: the contracts (abstraction over the fields) no longer apply -- not a verdict' % (ob_id, f.module))
                continue
            if lost_here:
                out['undecided'].append('%s fails but proof hints lost their anchor (%s): not a verdict' % (ob_id, lost_here[0]))
                continue
            body = '\n'.join(wlines[f.lo - 1:f.hi])
            called_new = [n for n in new_fns if re.search(r'\b%s\s*\(' % re.escape(n), body) and n != f.name]
            if called_new:
                out['undecided'].append('%s fails, but the function calls %s which has no contract (new since the baseline): the modular proof cannot see through it -- not a verdict' % (ob_id, ', '.join(called_new)))
                continue
            if ob_id not in ledger:
                out['undecided'].append('%s fails but never verified on the baseline tree (not in ledger): unfinished proof, not a verdict' % ob_id)
                continue
            payload = {
                'property': pid, 'obligation': ob_id, 'function': fid, 'clause_kind': kind, 'lane': 'verus',
                'source': ck.src_loc(vd, f.lo) if f.lo in w.src_line else ck.src_loc(vd, dg.line),
                'failing_clause': dg.clause_text, 'verifier_message': dg.message, 'verifier_output': [d.rendered for d in bad][:6],
                'counterexample': None, 'note': 'Verus yields no model: no-failing-input-found. The obligation verified on the baseline tree (ledger) and now fails with a definite answer.',
                'woven_sha': w.sha, 'replay': 'python3 /verif/check.py --replay <this file>', 'verus_cmd': res.get('cmd'),
            }
            path = write_replay(pid, ob_id, payload)
            out['violations'].append((ob_id, path, False))
            continue
        n_ok += len(clauses)
        if len(samples) < 6 and not support:
            samples.append({'obligation': ob_id, 'clauses': clauses[:3], 'source': ck.src_loc(vd, f.lo)})
    if pid == 'C18':
        # layout: every field is a fixed-size scalar, Option<f64>, the period-length buffer or an indicator; fixed part within the bound
        for prob in getattr(w, 'layout_problems', []):
            out['undecided'].append('state layout: ' + prob)
        for name, li in sorted(getattr(w, 'layout_info', {}).items()):
            n_ob += 1
            if li['fixed_bytes_K'] <= 256 and 8 * li['buffers'] <= 64:
                n_ok += 1
            else:
                path = write_replay(pid, 'layout::' + name, {'property': pid, 'obligation': 'layout::' + name, 'lane': 'layout', 'struct': name, 'layout': li,
                                                              'note': 'fixed serialized part K=%d bytes, %d buffers: exceeds 256 + 64*period' % (li['fixed_bytes_K'], li['buffers']), 'counterexample': None})
                out['violations'].append(('layout::' + name, path, False))
        cov['layout'] = {k: {'fixed_bytes_K': v['fixed_bytes_K'], 'buffers': v['buffers'], 'fields': ['%s: %s' % f for f in v['fields']]} for k, v in getattr(w, 'layout_info', {}).items()}
        assumptions.append('bincode layout rules are ASSUMED (usize/f64 8 bytes, bool 1, Option<f64> 1 or 9, Box<[f64]> 8 + 8*len, nested struct = sum); real bincode output and live-heap counters are not measured')
    cov['obligations'] += n_ob
    cov['discharged'] += n_ok
    cov['samples'] += samples
    cov['lanes'].append('verus')
    cov['functions_under_contract'] = sorted(fn_under)
    cov['n_functions_under_contract'] = len(fn_under)
    # algebra obligations count for every Verus property (they are axioms in the woven text)
    cov['obligations'] += len(alg_ok)
    cov['discharged'] += sum(1 for v in alg_ok.values() if v)
    cov['back_ends']['verus+z3'] = {'obligations': n_ob, 'discharged': n_ok, 'smt_ms': res.get('smt_ms'), 'wall_s': round(res.get('wall_s', 0), 2),
                                    'verified_on_retry_after_rlimit': res.get('verified_on_retry', []), 'functions_verified_in_crate': res.get('verified'), 'errors_in_crate': res.get('errors'), 'cache': res.get('cache'),
                                    'version': res.get('version')}
    cov['back_ends']['z3-nlsat (algebra lane, outside Verus)'] = {'lemmas': alg_res}
    cov['checker_cmd'] = res.get('cmd', '') + '   # on the file woven from /repo/src by vlib/weave.py (sha256 %s)' % w.sha[:16]
    cov['trusted_base'] = tb
    cov['weaving'] = {'rewrites': {k: v for k, v in w.rewrites.items() if v}, 'dropped_items': {k: sorted(set(v) - {'comment'}) for k, v in w.dropped.items() if set(v) - {'comment'}},
                      'erasure_check': 'passed for every file (woven text minus insertions/rewrites == source minus dropped items)', 'lost_hints': w.lost_hints, 'lost_loop_invariants': w.lost_loops, 'lost_items': w.lost_items}
    assumptions.append(IDEAL)
    assumptions.append('trusted base (axioms / external_body / assume_specification) as listed in coverage.trusted_base; user price getters are pure (T6)')
    assumptions.append('Verus, its Z3 and rustc are trusted; obligations = contract clauses, hints and one built-in-safety obligation per exec function, counted from the woven text')
    return out


def ledger_tags(ledger, fnname):
    """ledger obligations of a lemma/client function, with the property ids named in their kind"""
    res = []
    for o in ledger:
        fid, _, kind = o.partition('#')
        if fid.split('::')[-1] == fnname and not fid.startswith('kani::'):
            props_ = []
            for k in kind.split(','):
                props_ += PM.props_for('::'.join(fid.split('::')[:-1]), k, None)
            res.append((o, [x for x in props_ if x != '*']))
    return res


def replay(path):
    ck = _ck()
    p = json.load(open(path))
    pid = p['property']
    print('replaying %s (%s) for property %s' % (p['obligation'], p.get('lane'), pid))
    if p.get('lane') == 'kani':
        import kani_lane as K
        return K.replay(p)
    vd = ck.verus_verdict('quick', use_cache=False)
    bad = []
    for dg in vd['diags']:
        if dg.fn is None:
            continue
        for k in dg.kinds:
            if '%s#%s' % (dg.fn.id, k) == p['obligation']:
                bad.append(dg)
    if bad:
        print('obligation still fails on the current tree:')
        for d in bad[:3]:
            print(d.rendered)
        return 1
    print('obligation verifies on the current tree')
    return 0
