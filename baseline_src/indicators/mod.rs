mod exponential_moving_average;
pub use self::exponential_moving_average::ExponentialMovingAverage;

mod weighted_moving_average;
pub use self::weighted_moving_average::WeightedMovingAverage;

mod simple_moving_average;
pub use self::simple_moving_average::SimpleMovingAverage;

mod standard_deviation;
pub use self::standard_deviation::StandardDeviation;

mod mean_absolute_deviation;
pub use self::mean_absolute_deviation::MeanAbsoluteDeviation;

mod relative_strength_index;
pub use self::relative_strength_index::RelativeStrengthIndex;

mod minimum;
pub use self::minimum::Minimum;

mod maximum;
pub use self::maximum::Maximum;

mod fast_stochastic;
pub use self::fast_stochastic::FastStochastic;

mod slow_stochastic;
pub use self::slow_stochastic::SlowStochastic;

mod true_range;
pub use self::true_range::TrueRange;

mod average_true_range;
pub use self::average_true_range::AverageTrueRange;

mod moving_average_convergence_divergence;
pub use self::moving_average_convergence_divergence::{
    MovingAverageConvergenceDivergence, MovingAverageConvergenceDivergenceOutput,
};

mod percentage_price_oscillator;
pub use self::percentage_price_oscillator::{
    PercentagePriceOscillator, PercentagePriceOscillatorOutput,
};

mod commodity_channel_index;
pub use self::commodity_channel_index::CommodityChannelIndex;

mod efficiency_ratio;
pub use self::efficiency_ratio::EfficiencyRatio;

mod bollinger_bands;
pub use self::bollinger_bands::{BollingerBands, BollingerBandsOutput};

mod chandelier_exit;
pub use self::chandelier_exit::{ChandelierExit, ChandelierExitOutput};

mod keltner_channel;
pub use self::keltner_channel::{KeltnerChannel, KeltnerChannelOutput};

mod rate_of_change;
pub use self::rate_of_change::RateOfChange;

mod money_flow_index;
pub use self::money_flow_index::MoneyFlowIndex;

mod on_balance_volume;
pub use self::on_balance_volume::OnBalanceVolume;
