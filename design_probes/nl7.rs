use vstd::prelude::*;
verus! {
pub proof fn alg_slide_a(d: real, o: real, m0: real, m1: real)
   ensures ({ let x = o + d; (x - o)*(x - m1 + o - m0) - (x*x - o*o) == 0real - d*(m1 + m0) })
{
  assert(((o + d) - o)*((o + d) - m1 + o - m0) - ((o + d)*(o + d) - o*o) == 0real - d*(m1 + m0)) by(nonlinear_arith);
}
pub proof fn alg_slide_b(n: real, m0: real, m1: real)
   ensures (0real - n*m0*m0) - (n*m1 - n*m0)*(m1 + m0) + n*m1*m1 == 0real
{
  assert((0real - n*m0*m0) - (n*m1 - n*m0)*(m1 + m0) + n*m1*m1 == 0real) by(nonlinear_arith);
}
}
fn main(){}
