verus! {
pub uninterp spec fn abs_spec(x: f64) -> f64;
pub assume_specification [f64::abs] (x: f64) -> (r: f64) ensures r == abs_spec(x);
pub uninterp spec fn max_spec(x: f64, y: f64) -> f64;
pub assume_specification [f64::max] (x: f64, y: f64) -> (r: f64) ensures r == max_spec(x, y);
pub uninterp spec fn sign_pos_spec(x: f64) -> bool;
pub assume_specification [f64::is_sign_positive] (x: f64) -> (r: bool) ensures r == sign_pos_spec(x);
pub broadcast axiom fn ax_neg_req(a: f64) ensures #[trigger] a.neg_req();
pub uninterp spec fn INF() -> f64;
pub uninterp spec fn neg_spec(x: f64) -> f64;
#[verifier::external_body]
pub fn f64_neg(x: f64) -> (r: f64) ensures r == neg_spec(x) { -x }
#[verifier::external_body]
pub fn f64_infinity() -> (r: f64) ensures r == INF() { f64::INFINITY }

pub trait Close { spec fn close_spec(&self) -> f64; fn close(&self) -> (r: f64) ensures r == self.close_spec(); }
pub trait High { spec fn high_spec(&self) -> f64; fn high(&self) -> (r: f64) ensures r == self.high_spec(); }
pub trait Low { spec fn low_spec(&self) -> f64; fn low(&self) -> (r: f64) ensures r == self.low_spec(); }
pub trait Volume { spec fn volume_spec(&self) -> f64; fn volume(&self) -> (r: f64) ensures r == self.volume_spec(); }
pub trait Next<T> {
    type Output;
    spec fn next_req(&self, input: T) -> bool;
    spec fn next_ens(&self, post: &Self, input: T, out: Self::Output) -> bool;
    fn next(&mut self, input: T) -> (out: Self::Output)
        requires old(self).next_req(input),
        ensures old(self).next_ens(final(self), input, out);
}
pub fn max3(a: f64, b: f64, c: f64) -> f64 {
    a.max(b).max(c)
}
pub struct TrueRange { prev_close: Option<f64> }
impl<T: High + Low + Close> Next<&T> for TrueRange {
    type Output = f64;
    open spec fn next_req(&self, bar: &T) -> bool { true }
    open spec fn next_ens(&self, post: &Self, bar: &T, out: f64) -> bool { true }
    fn next(&mut self, bar: &T) -> Self::Output {
        broadcast use f64_axioms;
        let max_dist = match self.prev_close {
            Some(prev_close) => {
                let dist1 = bar.high() - bar.low();
                let dist2 = (bar.high() - prev_close).abs();
                let dist3 = (bar.low() - prev_close).abs();
                max3(dist1, dist2, dist3)
            }
            None => bar.high() - bar.low(),
        };
        self.prev_close = Some(bar.close());
        max_dist
    }
}
pub struct Mfi { period: usize, index: usize, count: usize, previous_typical_price: f64, total_positive_money_flow: f64, total_negative_money_flow: f64, deque: Box<[f64]> }
impl<T: High + Low + Close + Volume> Next<&T> for Mfi {
    type Output = f64;
    closed spec fn next_req(&self, bar: &T) -> bool { self.index < self.period && self.deque@.len() == self.period && self.count <= self.period}
    open spec fn next_ens(&self, post: &Self, bar: &T, out: f64) -> bool { true }
    fn next(&mut self, input: &T) -> f64 {
        broadcast use f64_axioms; broadcast use ax_neg_req;
        let tp = (input.close() + input.high() + input.low()) / 3.0;

        self.index = if self.index + 1 < self.period {
            self.index + 1
        } else {
            0
        };

        if self.count < self.period {
            self.count = self.count + 1;
            if self.count == 1 {
                self.previous_typical_price = tp;
                return 50.0;
            }
        } else {
            let popped = self.deque[self.index];
            if popped.is_sign_positive() {
                self.total_positive_money_flow = self.total_positive_money_flow - (popped);
            } else {
                self.total_negative_money_flow = self.total_negative_money_flow + (popped);
            }
        }

        if tp > self.previous_typical_price {
            let raw_money_flow = tp * input.volume();
            self.total_positive_money_flow = self.total_positive_money_flow + (raw_money_flow);
            self.deque[self.index] = raw_money_flow;
        } else if tp < self.previous_typical_price {
            let raw_money_flow = tp * input.volume();
            self.total_negative_money_flow = self.total_negative_money_flow + (raw_money_flow);
            self.deque[self.index] = f64_neg(raw_money_flow);
        } else {
            self.deque[self.index] = 0.0;
        }
        self.previous_typical_price = tp;

        self.total_positive_money_flow
            / (self.total_positive_money_flow + self.total_negative_money_flow)
            * 100.0
    }
}
pub struct Out { pub a: f64, pub b: f64 }
impl From<Out> for (f64, f64) {
    fn from(o: Out) -> Self { (o.a, o.b) }
}
pub struct Minimum { period: usize, min_index: usize, cur_index: usize, deque: Box<[f64]> }
impl Minimum {
    pub closed spec fn wf(&self) -> bool { self.period >= 1 && self.min_index < self.period && self.cur_index < self.period && self.deque@.len() == self.period }
    #[verifier::external_body]
    fn find_min_index(&self) -> (r: usize) 
        requires self.wf()
        ensures r < self.period
    {
        let mut min = f64::INFINITY;
        let mut index: usize = 0;

        for (i, &val) in self.deque.iter().enumerate() {
            if val < min {
                min = val;
                index = i;
            }
        }

        index
    }
    pub fn reset(&mut self) requires old(self).wf() ensures final(self).wf() {
        for i in 0..self.period 
           invariant self.wf()
        {
            self.deque[i] = f64_infinity();
        }
    }
}
impl Next<f64> for Minimum {
    type Output = f64;
    open spec fn next_req(&self, input: f64) -> bool { self.wf() }
    open spec fn next_ens(&self, post: &Self, input: f64, out: f64) -> bool { post.wf() }
    fn next(&mut self, input: f64) -> Self::Output {
        broadcast use f64_axioms;
        self.deque[self.cur_index] = input;

        if input < self.deque[self.min_index] {
            self.min_index = self.cur_index;
        } else if self.min_index == self.cur_index {
            self.min_index = self.find_min_index();
        }

        self.cur_index = if self.cur_index + 1 < self.period {
            self.cur_index + 1
        } else {
            0
        };

        self.deque[self.min_index]
    }
}
}
fn main() {}
