use std::fmt;

use crate::errors::{Result, TaError};
use crate::{Close, Next, Period, Reset};
#[cfg(feature = "serde")]
use serde::{Deserialize, Serialize};

/// Simple moving average (SMA).
///
/// # Formula
///
/// ![SMA](https://wikimedia.org/api/rest_v1/media/math/render/svg/e2bf09dc6deaf86b3607040585fac6078f9c7c89)
///
/// Where:
///
/// * _SMA<sub>t</sub>_ - value of simple moving average at a point of time _t_
/// * _period_ - number of periods (period)
/// * _p<sub>t</sub>_ - input value at a point of time _t_
///
/// # Parameters
///
/// * _period_ - number of periods (integer greater than 0)
///
/// # Example
///
/// ```
/// use ta::indicators::SimpleMovingAverage;
/// use ta::Next;
///
/// let mut sma = SimpleMovingAverage::new(3).unwrap();
/// assert_eq!(sma.next(10.0), 10.0);
/// assert_eq!(sma.next(11.0), 10.5);
/// assert_eq!(sma.next(12.0), 11.0);
/// assert_eq!(sma.next(13.0), 12.0);
/// ```
///
/// # Links
///
/// * [Simple Moving Average, Wikipedia](https://en.wikipedia.org/wiki/Moving_average#Simple_moving_average)
///
#[doc(alias = "SMA")]
#[cfg_attr(feature = "serde", derive(Serialize, Deserialize))]
#[derive(Debug, Clone)]
pub struct SimpleMovingAverage {
    period: usize,
    index: usize,
    count: usize,
    sum: f64,
    deque: Box<[f64]>,
}

impl SimpleMovingAverage {
    pub fn new(period: usize) -> Result<Self> {
        match period {
            0 => Err(TaError::InvalidParameter),
            _ => Ok(Self {
                period,
                index: 0,
                count: 0,
                sum: 0.0,
                deque: vec![0.0; period].into_boxed_slice(),
            }),
        }
    }
}

impl Period for SimpleMovingAverage {
    fn period(&self) -> usize {
        self.period
    }
}

impl Next<f64> for SimpleMovingAverage {
    type Output = f64;

    fn next(&mut self, input: f64) -> Self::Output {
        let old_val = self.deque[self.index];
        self.deque[self.index] = input;

        self.index = if self.index + 1 < self.period {
            self.index + 1
        } else {
            0
        };

        if self.count < self.period {
            self.count += 1;
        }

        self.sum = self.sum - old_val + input;
        self.sum / (self.count as f64)
    }
}

impl<T: Close> Next<&T> for SimpleMovingAverage {
    type Output = f64;

    fn next(&mut self, input: &T) -> Self::Output {
        self.next(input.close())
    }
}

impl Reset for SimpleMovingAverage {
    fn reset(&mut self) {
        self.index = 0;
        self.count = 0;
        self.sum = 0.0;
        for i in 0..self.period {
            self.deque[i] = 0.0;
        }
    }
}

impl Default for SimpleMovingAverage {
    fn default() -> Self {
        Self::new(9).unwrap()
    }
}

impl fmt::Display for SimpleMovingAverage {
    fn fmt(&self, f: &mut fmt::Formatter) -> fmt::Result {
        write!(f, "SMA({})", self.period)
    }
}

#[cfg(test)]
mod tests {
    use super::*;
    use crate::test_helper::*;

    test_indicator!(SimpleMovingAverage);

    #[test]
    fn test_new() {
        assert!(SimpleMovingAverage::new(0).is_err());
        assert!(SimpleMovingAverage::new(1).is_ok());
    }

    #[test]
    fn test_next() {
        let mut sma = SimpleMovingAverage::new(4).unwrap();
        assert_eq!(sma.next(4.0), 4.0);
        assert_eq!(sma.next(5.0), 4.5);
        assert_eq!(sma.next(6.0), 5.0);
        assert_eq!(sma.next(6.0), 5.25);
        assert_eq!(sma.next(6.0), 5.75);
        assert_eq!(sma.next(6.0), 6.0);
        assert_eq!(sma.next(2.0), 5.0);
    }

    #[test]
    fn test_next_with_bars() {
        fn bar(close: f64) -> Bar {
            Bar::new().close(close)
        }

        let mut sma = SimpleMovingAverage::new(3).unwrap();
        assert_eq!(sma.next(&bar(4.0)), 4.0);
        assert_eq!(sma.next(&bar(4.0)), 4.0);
        assert_eq!(sma.next(&bar(7.0)), 5.0);
        assert_eq!(sma.next(&bar(1.0)), 4.0);
    }

    #[test]
    fn test_reset() {
        let mut sma = SimpleMovingAverage::new(4).unwrap();
        assert_eq!(sma.next(4.0), 4.0);
        assert_eq!(sma.next(5.0), 4.5);
        assert_eq!(sma.next(6.0), 5.0);

        sma.reset();
        assert_eq!(sma.next(99.0), 99.0);
    }

    #[test]
    fn test_default() {
        SimpleMovingAverage::default();
    }

    #[test]
    fn test_display() {
        let sma = SimpleMovingAverage::new(5).unwrap();
        assert_eq!(format!("{}", sma), "SMA(5)");
    }
}
