use std::fmt;

use crate::{Close, Next, Reset, Volume};
#[cfg(feature = "serde")]
use serde::{Deserialize, Serialize};

/// On Balance Volume (OBV).
///
/// The OBV is an volume and price based oscillator which gives cumulative total volumes.
/// OBV measures buying and selling pressure as a cumulative indicator,
/// adding volume on up days and subtracting it on down days.
///
/// # Formula
///
/// If the closing price is above the prior close price then:
/// Current OBV = Previous OBV + Current Volume
///
/// If the closing price is below the prior close price then:
/// Current OBV = Previous OBV  -  Current Volume
///
/// If the closing prices equals the prior close price then:
/// Current OBV = Previous OBV
///
/// Where:
///
/// obv - on the balance volume
///
/// # Example
///
/// ```
/// use ta::indicators::OnBalanceVolume;
/// use ta::{Next, DataItem};
///
/// let mut obv = OnBalanceVolume::new();
///
/// let di1 = DataItem::builder()
///             .high(3.0)
///             .low(1.0)
///             .close(2.0)
///             .open(1.5)
///             .volume(1000.0)
///             .build().unwrap();
///
/// let di2 = DataItem::builder()
///             .high(3.0)
///             .low(1.0)
///             .close(1.5)
///             .open(1.5)
///             .volume(300.0)
///             .build().unwrap();
///
/// assert_eq!(obv.next(&di1), 1000.0);
/// assert_eq!(obv.next(&di2), 700.0);
/// ```
///
/// # Links
///
/// * [On Balance Volume, Wikipedia](https://en.wikipedia.org/wiki/On-balance_volume)
/// * [On Balance Volume, stockcharts](https://stockcharts.com/school/doku.php?id=chart_school:technical_indicators:on_balance_volume_obv)

#[doc(alias = "OBV")]
#[cfg_attr(feature = "serde", derive(Serialize, Deserialize))]
#[derive(Debug, Clone)]
pub struct OnBalanceVolume {
    obv: f64,
    prev_close: f64,
}

impl OnBalanceVolume {
    pub fn new() -> Self {
        Self {
            obv: 0.0,
            prev_close: 0.0,
        }
    }
}

impl<T: Close + Volume> Next<&T> for OnBalanceVolume {
    type Output = f64;

    fn next(&mut self, input: &T) -> f64 {
        if input.close() > self.prev_close {
            self.obv = self.obv + input.volume();
        } else if input.close() < self.prev_close {
            self.obv = self.obv - input.volume();
        }
        self.prev_close = input.close();
        self.obv
    }
}

impl Default for OnBalanceVolume {
    fn default() -> Self {
        Self::new()
    }
}

impl fmt::Display for OnBalanceVolume {
    fn fmt(&self, f: &mut fmt::Formatter) -> fmt::Result {
        write!(f, "OBV")
    }
}

impl Reset for OnBalanceVolume {
    fn reset(&mut self) {
        self.obv = 0.0;
        self.prev_close = 0.0;
    }
}

#[cfg(test)]
mod tests {
    use super::*;
    use crate::test_helper::*;

    #[test]
    fn test_next_bar() {
        let mut obv = OnBalanceVolume::new();

        let bar1 = Bar::new().close(1.5).volume(1000.0);
        let bar2 = Bar::new().close(5).volume(5000.0);
        let bar3 = Bar::new().close(4).volume(9000.0);
        let bar4 = Bar::new().close(4).volume(4000.0);

        assert_eq!(obv.next(&bar1), 1000.0);

        //close > prev_close
        assert_eq!(obv.next(&bar2), 6000.0);

        // close < prev_close
        assert_eq!(obv.next(&bar3), -3000.0);

        // close == prev_close
        assert_eq!(obv.next(&bar4), -3000.0);
    }

    #[test]
    fn test_reset() {
        let mut obv = OnBalanceVolume::new();

        let bar1 = Bar::new().close(1.5).volume(1000.0);
        let bar2 = Bar::new().close(4).volume(2000.0);
        let bar3 = Bar::new().close(8).volume(3000.0);

        assert_eq!(obv.next(&bar1), 1000.0);
        assert_eq!(obv.next(&bar2), 3000.0);
        assert_eq!(obv.next(&bar3), 6000.0);

        obv.reset();

        assert_eq!(obv.next(&bar1), 1000.0);
        assert_eq!(obv.next(&bar2), 3000.0);
        assert_eq!(obv.next(&bar3), 6000.0);
    }

    #[test]
    fn test_default() {
        OnBalanceVolume::default();
    }

    #[test]
    fn test_display() {
        let obv = OnBalanceVolume::new();
        assert_eq!(format!("{}", obv), "OBV");
    }
}
