
// @harness vk_ppo_display props=C11 kind=bounded(concrete-parameters) tier=thorough
// Display renders NAME(params): PPO(12, 26, 9) (concrete parameters only)
#[kani::proof]
#[kani::unwind(40)]
fn vk_ppo_display() {
    let ind = PercentagePriceOscillator::new(12, 26, 9).unwrap();
    let s = format!("{}", ind);
    assert!(s == "PPO(12, 26, 9)");
}
