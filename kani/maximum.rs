fn vk_any_max<const P: usize>() -> Maximum {
    let a: [f64; P] = kani::any();
    let max_index: usize = kani::any();
    kani::assume(max_index < P);
    let cur_index: usize = kani::any();
    kani::assume(cur_index < P);
    Maximum { period: P, max_index, cur_index, deque: Box::new(a) }
}
// the contract Verus ASSUMES for find_max_index (T7), checked here on the real function for every buffer content
// (incl. NaN, +-inf, ties) up to the stated period: the index is in range -- for any content, so no panic --, and when no
// entry is NaN no entry is above the entry found
fn vk_find_max_index_contract<const P: usize>() {
    let m = vk_any_max::<P>();
    let r = m.find_max_index();
    assert!(r < P);
    let mut all_ord = true;
    let mut i = 0;
    while i < P { if m.deque[i].is_nan() { all_ord = false; } i += 1; }
    if all_ord {
        let mut j = 0;
        while j < P { assert!(!(m.deque[j] > m.deque[r])); j += 1; }
    }
}
// @harness vk_find_max_index_p1 props=C01,C12,C17 kind=bounded(period=1) tier=quick
#[kani::proof] #[kani::unwind(3)] fn vk_find_max_index_p1() { vk_find_max_index_contract::<1>() }
// @harness vk_find_max_index_p2 props=C01,C12,C17 kind=bounded(period=2) tier=quick
#[kani::proof] #[kani::unwind(4)] fn vk_find_max_index_p2() { vk_find_max_index_contract::<2>() }
// @harness vk_find_max_index_p3 props=C01,C12,C17 kind=bounded(period=3) tier=quick
#[kani::proof] #[kani::unwind(5)] fn vk_find_max_index_p3() { vk_find_max_index_contract::<3>() }
// @harness vk_find_max_index_p6 props=C01,C12,C17 kind=bounded(period=6) tier=quick
#[kani::proof] #[kani::unwind(8)] fn vk_find_max_index_p6() { vk_find_max_index_contract::<6>() }

// one next() from any shape-valid state with any buffer content and any input: no panic, cursors stay in range
fn vk_max_next_total<const P: usize>() {
    let mut m = vk_any_max::<P>();
    let x: f64 = kani::any();
    let _ = m.next(x);
    assert!(m.max_index < P && m.cur_index < P && m.period == P && m.deque.len() == P);
}
// @harness vk_max_next_total_p1 props=C12 kind=bounded(period=1) tier=quick
#[kani::proof] #[kani::unwind(3)] fn vk_max_next_total_p1() { vk_max_next_total::<1>() }
// @harness vk_max_next_total_p3 props=C12 kind=bounded(period=3) tier=quick
#[kani::proof] #[kani::unwind(5)] fn vk_max_next_total_p3() { vk_max_next_total::<3>() }

// derived Clone is a deep copy: fieldwise bit-equal, distinct buffer, and feeding the clone leaves the original untouched
fn vk_max_clone_deep<const P: usize>() {
    let m = vk_any_max::<P>();
    let mut c = m.clone();
    assert!(c.period == m.period && c.max_index == m.max_index && c.cur_index == m.cur_index);
    let mut before = [0u64; P];
    let mut i = 0;
    while i < P { assert!(c.deque[i].to_bits() == m.deque[i].to_bits()); before[i] = m.deque[i].to_bits(); i += 1; }
    assert!(c.deque.as_ptr() != m.deque.as_ptr());
    let _ = c.next(kani::any::<f64>());
    let mut j = 0;
    while j < P { assert!(m.deque[j].to_bits() == before[j]); j += 1; }
}
// @harness vk_max_clone_deep_p3 props=C05 kind=bounded(period=3) tier=quick
#[kani::proof] #[kani::unwind(5)] fn vk_max_clone_deep_p3() { vk_max_clone_deep::<3>() }
