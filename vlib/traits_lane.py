def lane(pid, tier, cov, assumptions):
    return {'violations': [], 'undecided': ['traits lane not built yet']}
