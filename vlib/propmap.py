"""Which (module, clause kind) carries which property.  Clause kinds are the `//#kind` markers on
contract lines (see contracts/traits.vspec); a marker may also name property ids directly."""

IND = 'indicators::'
SMA, EMA, WMA, SD, MAD = 'simple_moving_average', 'exponential_moving_average', 'weighted_moving_average', 'standard_deviation', 'mean_absolute_deviation'
RSI, MIN, MAX, FAST, SLOW = 'relative_strength_index', 'minimum', 'maximum', 'fast_stochastic', 'slow_stochastic'
TR, ATR, MACD, PPO = 'true_range', 'average_true_range', 'moving_average_convergence_divergence', 'percentage_price_oscillator'
CCI, ER, BB, CE, KC = 'commodity_channel_index', 'efficiency_ratio', 'bollinger_bands', 'chandelier_exit', 'keltner_channel'
ROC, MFI, OBV = 'rate_of_change', 'money_flow_index', 'on_balance_volume'

ALL = [SMA, EMA, WMA, SD, MAD, RSI, MIN, MAX, FAST, SLOW, TR, ATR, MACD, PPO, CCI, ER, BB, CE, KC, ROC, MFI, OBV]

VALUE = {}
for m in (SMA, WMA, SD, MAD, MIN, MAX, BB):
    VALUE.setdefault(m, []).append('C01')
for m in (EMA, TR, ATR, MACD, KC, CE):
    VALUE.setdefault(m, []).append('C02')
for m in (RSI, FAST, SLOW, ROC, ER, PPO, CCI, MFI, OBV):
    VALUE.setdefault(m, []).append('C03')
for m in (SMA, WMA, SD, MAD, MIN, MAX, FAST, BB, CCI, ROC, ER, MFI):
    VALUE.setdefault(m, []).append('C17')
for m in (BB, SLOW, ATR, MACD, PPO, KC, CE, CCI):
    VALUE.setdefault(m, []).append('C15')
for m in ALL:
    VALUE.setdefault(m, []).append('C05')
for m in ALL:
    if m != RSI:      # RSI is excluded by the property (fixed 0.1 seed)
        VALUE.setdefault(m, []).append('C14')

RANGE = {}
for m in (RSI, FAST, SLOW, MFI, ER):
    RANGE.setdefault(m, []).append('C07')
for m in (SD, MAD, TR, ATR, BB, KC, CE, MACD, PPO, SMA, WMA, EMA, MIN, MAX):
    RANGE.setdefault(m, []).append('C09')


def props_for(module, kind, fn):
    """module: woven module path (e.g. 'indicators::simple_moving_average'); kind: marker; fn: Fn"""
    if kind.startswith('C') and kind[1:].isdigit():
        return [kind]
    short = module.split('::')[-1] if module else ''
    is_reset = fn is not None and fn.name == 'reset'
    if kind == 'shape':
        p = ['C12', 'C18']
        if fn is not None and fn.name in ('next', 'reset'):
            p.append('C11')        # period()/multiplier() faithful for the indicator's whole life (frame)
        if is_reset:
            p.append('C04')        # parameters unchanged by reset
        if fn is not None and fn.name in ('new', 'default'):
            p = ['C11', 'C12']
        return p
    if kind == 'bar':
        return ['C10']
    if fn is not None and getattr(fn, 'delegated', False) and kind in ('value', 'range', 'degen'):
        # Next<&T> impls whose clauses are, by definition, the Next<f64> clauses at the documented getter
        return ['C10']
    if kind == 'value':
        p = list(VALUE.get(short, []))
        # the one-price-bar clause of C10 rests on the bar-path value clause of these indicators (with lemmas/barscalar.rs)
        if fn is not None and fn.impl.startswith('Next<&T>') and short in (FAST, SLOW, TR, ATR, KC) and 'C10' not in p:
            p.append('C10')
        return p
    if kind == 'range':
        return list(RANGE.get(short, []))
    if kind == 'degen':
        return ['C08']
    # new / reset establish the numeric invariant every value, range and degenerate-window clause relies on
    # (the inductive argument over "every history of next/reset operations"), so they carry those properties too
    base = list(VALUE.get(short, [])) + list(RANGE.get(short, [])) + ['C08']
    if kind == 'reset':
        return ['C04'] + base
    if kind == 'new':
        return ['C11', 'C04'] + base
    if kind in ('period', 'default', 'mult'):
        return ['C11']
    if kind == 'lemma':
        return ['*']     # support lemma: counted for every property that uses the Verus lane
    return []
