
// @harness vk_cci_display props=C11 kind=bounded(concrete-parameters) tier=thorough
// Display renders NAME(params): CCI(20) (concrete parameters only)
#[kani::proof]
#[kani::unwind(40)]
fn vk_cci_display() {
    let ind = CommodityChannelIndex::new(20).unwrap();
    let s = format!("{}", ind);
    assert!(s == "CCI(20)");
}
