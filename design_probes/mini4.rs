verus! {
pub struct A { sum: f64, prev: f64 }
impl A {
    fn a(&mut self, input: f64) -> f64 {
        broadcast use f64_axioms;
        proof { ax_add_req(self.sum, input); }
        self.sum = self.sum + input;
        self.sum
    }
    fn b(&mut self, input: f64) -> (r: f64)
        ensures fin(old(self).sum) && fin(input) ==> rv(r) == rv(old(self).sum) + rv(input)
    {
        broadcast use f64_axioms;
        proof { ax_add_req(self.sum, input); ax_add_val(self.sum, input); }
        self.sum = self.sum + input;
        self.sum
    }
}
}
fn main() {}
