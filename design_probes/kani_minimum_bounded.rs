#[cfg(kani)]
mod verif_kani {
    use super::*;
    fn any_min<const P: usize>() -> Minimum {
        let a: [f64; P] = kani::any();
        let min_index: usize = kani::any(); kani::assume(min_index < P);
        let cur_index: usize = kani::any(); kani::assume(cur_index < P);
        Minimum { period: P, min_index, cur_index, deque: Box::new(a) }
    }
    fn find_min_index_contract<const P: usize>() {
        let m = any_min::<P>();
        let r = m.find_min_index();
        assert!(r < P);
        let mut all_ord = true;
        for i in 0..P { if m.deque[i].is_nan() { all_ord = false; } }
        if all_ord {
            for i in 0..P { assert!(!(m.deque[i] < m.deque[r])); }
        }
    }
    #[kani::proof] #[kani::unwind(8)] fn find_min_index_p1() { find_min_index_contract::<1>() }
    #[kani::proof] #[kani::unwind(8)] fn find_min_index_p3() { find_min_index_contract::<3>() }
    #[kani::proof] #[kani::unwind(8)] fn find_min_index_p6() { find_min_index_contract::<6>() }
    fn clone_deep<const P: usize>() {
        let m = any_min::<P>();
        let mut c = m.clone();
        assert!(c.period == m.period && c.min_index == m.min_index && c.cur_index == m.cur_index);
        let mut before = [0u64; P];
        for i in 0..P { assert!(c.deque[i].to_bits() == m.deque[i].to_bits()); before[i] = m.deque[i].to_bits(); }
        assert!(c.deque.as_ptr() != m.deque.as_ptr());
        let _ = c.next(kani::any::<f64>());
        for i in 0..P { assert!(m.deque[i].to_bits() == before[i]); }
    }
    #[kani::proof] #[kani::unwind(8)] fn clone_deep_p3() { clone_deep::<3>() }
}
