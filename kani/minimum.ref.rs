fn vk_any_finite() -> f64 { let v: f64 = kani::any(); kani::assume(v.is_finite()); v }

// differential check against the textbook definition on the recorded history, after every prefix
fn vk_min_matches_reference<const P: usize, const K: usize>() {
    let mut ind = Minimum::new(P).unwrap();
    let mut hist = [0.0f64; K];
    let mut t = 0;
    while t < K {
        let x = vk_any_finite();
        hist[t] = x;
        let out = ind.next(x);
        let n = if t + 1 < P { t + 1 } else { P };       // the window is exactly the last min(t+1, P) inputs
        let lo = t + 1 - n;
        let mut m = hist[lo];
        let mut j = lo;
        while j <= t { if hist[j] < m { m = hist[j]; } j += 1; }
        assert!(out == m);                                   // exactly the least element of the window
        t += 1;
    }
}
// @harness vk_min_matches_reference_p1 props=C01,C17 kind=bounded(period=1,steps=3) tier=quick
#[kani::proof] #[kani::unwind(6)] fn vk_min_matches_reference_p1() { vk_min_matches_reference::<1, 3>() }
// @harness vk_min_matches_reference_p2 props=C01,C17 kind=bounded(period=2,steps=5) tier=quick
#[kani::proof] #[kani::unwind(8)] fn vk_min_matches_reference_p2() { vk_min_matches_reference::<2, 5>() }
// @harness vk_min_matches_reference_p3 props=C01,C17 kind=bounded(period=3,steps=6) tier=quick
#[kani::proof] #[kani::unwind(9)] fn vk_min_matches_reference_p3() { vk_min_matches_reference::<3, 6>() }
