#!/usr/bin/env python3
"""generates kani/<module>.display.rs: Display renders NAME(params) for the documented examples / defaults (concrete
parameters: the integer/float formatting machinery is far too heavy for symbolic ones -- a symbolic period <= 99 timed out at 900 s)"""
import os
here = os.path.dirname(os.path.abspath(__file__))
D = [
 ('exponential_moving_average', 'ExponentialMovingAverage::new(7).unwrap()', 'EMA(7)'),
 ('simple_moving_average', 'SimpleMovingAverage::new(9).unwrap()', 'SMA(9)'),
 ('weighted_moving_average', 'WeightedMovingAverage::new(9).unwrap()', 'WMA(9)'),
 ('standard_deviation', 'StandardDeviation::new(9).unwrap()', 'SD(9)'),
 ('mean_absolute_deviation', 'MeanAbsoluteDeviation::new(9).unwrap()', 'MAD(9)'),
 ('rate_of_change', 'RateOfChange::new(9).unwrap()', 'ROC(9)'),
 ('relative_strength_index', 'RelativeStrengthIndex::new(14).unwrap()', 'RSI(14)'),
 ('average_true_range', 'AverageTrueRange::new(14).unwrap()', 'ATR(14)'),
 ('efficiency_ratio', 'EfficiencyRatio::new(14).unwrap()', 'ER(14)'),
 ('money_flow_index', 'MoneyFlowIndex::new(14).unwrap()', 'MFI(14)'),
 ('minimum', 'Minimum::new(14).unwrap()', 'MIN(14)'),
 ('maximum', 'Maximum::new(14).unwrap()', 'MAX(14)'),
 ('fast_stochastic', 'FastStochastic::new(14).unwrap()', 'FAST_STOCH(14)'),
 ('slow_stochastic', 'SlowStochastic::new(10, 2).unwrap()', 'SLOW_STOCH(10, 2)'),
 ('moving_average_convergence_divergence', 'MovingAverageConvergenceDivergence::new(12, 26, 9).unwrap()', 'MACD(12, 26, 9)'),
 ('percentage_price_oscillator', 'PercentagePriceOscillator::new(12, 26, 9).unwrap()', 'PPO(12, 26, 9)'),
 ('commodity_channel_index', 'CommodityChannelIndex::new(20).unwrap()', 'CCI(20)'),
# BB / KC / CE print an f64 multiplier: float formatting (Grisu) did not finish in 900 s of CBMC time -- not covered
 ('true_range', 'TrueRange::new()', 'TRUE_RANGE()'),
 ('on_balance_volume', 'OnBalanceVolume::new()', 'OBV'),
]
for mod, ctor, want in D:
    short = {'minimum': 'min', 'maximum': 'max'}.get(mod, ''.join(w[0] for w in mod.split('_')))
    open(os.path.join(here, mod + '.display.rs'), 'w').write(f'''
// @harness vk_{short}_display props=C11 kind=bounded(concrete-parameters) tier=thorough
// Display renders NAME(params): {want} (concrete parameters only)
#[kani::proof]
#[kani::unwind(40)]
fn vk_{short}_display() {{
    let ind = {ctor};
    let s = format!("{{}}", ind);
    assert!(s == "{want}");
}}
''')
print(len(D))
