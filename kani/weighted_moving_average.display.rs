
// @harness vk_wma_display props=C11 kind=bounded(concrete-parameters) tier=thorough
// Display renders NAME(params): WMA(9) (concrete parameters only)
#[kani::proof]
#[kani::unwind(40)]
fn vk_wma_display() {
    let ind = WeightedMovingAverage::new(9).unwrap();
    let s = format!("{}", ind);
    assert!(s == "WMA(9)");
}
