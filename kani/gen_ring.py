#!/usr/bin/env python3
"""generates the op-sequence harnesses for the ring-buffer indicators (run by hand; output files are committed)"""
import os
here = os.path.dirname(os.path.abspath(__file__))
T = {
 'simple_moving_average': ('SimpleMovingAverage', 'count <= P', 'f64', ['sum']),
 'weighted_moving_average': ('WeightedMovingAverage', 'count <= P', 'f64', ['weight', 'sum', 'sum_flat']),
 'standard_deviation': ('StandardDeviation', 'count <= P', 'f64', ['m', 'm2']),
 'mean_absolute_deviation': ('MeanAbsoluteDeviation', 'count <= P', 'f64', ['sum']),
 'rate_of_change': ('RateOfChange', 'count <= P + 1', 'f64', []),
 'efficiency_ratio': ('EfficiencyRatio', 'count <= P', 'f64', []),
 'money_flow_index': ('MoneyFlowIndex', 'count <= P', 'bar', ['previous_typical_price', 'total_positive_money_flow', 'total_negative_money_flow']),
}
for mod, (ty, cnt, inp, flds) in T.items():
    short = ''.join(w[0] for w in mod.split('_'))
    bar = ''
    feed = 'let _ = ind.next(kani::any::<f64>());'
    feed2 = 'let x: f64 = kani::any(); let (oa, ob) = (a.next(x), b.next(x));'
    if inp == 'bar':
        bar = '''struct VkBar4 { h: f64, l: f64, c: f64, v: f64 }
impl High for VkBar4 { fn high(&self) -> f64 { self.h } }
impl Low for VkBar4 { fn low(&self) -> f64 { self.l } }
impl Close for VkBar4 { fn close(&self) -> f64 { self.c } }
impl Volume for VkBar4 { fn volume(&self) -> f64 { self.v } }
fn vk_bar4() -> VkBar4 { VkBar4 { h: kani::any(), l: kani::any(), c: kani::any(), v: kani::any() } }
'''
        feed = 'let b = vk_bar4(); let _ = ind.next(&b);'
        feed2 = 'let x = vk_bar4(); let (oa, ob) = (a.next(&x), b.next(&x));'
    out = bar + f'''
// any sequence of L operations (next with ANY f64 incl. NaN/inf, or reset) from new(P): no panic (index, slice range, overflow,
// unwrap) and the cursor / counter stay in range after every operation; covers every reachable cursor state for this period
fn vk_{short}_ops<const P: usize, const L: usize>() {{
    let mut ind = {ty}::new(P).unwrap();
    let mut i = 0;
    while i < L {{
        if kani::any() {{ ind.reset(); }} else {{ {feed} }}
        assert!(ind.index < P && ind.{cnt} && ind.deque.len() == P && ind.period == P);
        i += 1;
    }}
}}
// @harness vk_{short}_ops_p1 props=C12 kind=bounded(period=1,ops=4) tier=quick
#[kani::proof] #[kani::unwind(6)] fn vk_{short}_ops_p1() {{ vk_{short}_ops::<1, 4>() }}
// @harness vk_{short}_ops_p2 props=C12 kind=bounded(period=2,ops=6) tier=quick
#[kani::proof] #[kani::unwind(8)] fn vk_{short}_ops_p2() {{ vk_{short}_ops::<2, 6>() }}
// @harness vk_{short}_ops_p3 props=C12 kind=bounded(period=3,ops=8) tier={'thorough' if short in ('sd', 'mfi') else 'quick'}
#[kani::proof] #[kani::unwind(10)] fn vk_{short}_ops_p3() {{ vk_{short}_ops::<3, 8>() }}

// reset after any K finite inputs, then one more input: same output bits and same cursor state as a fresh instance
fn vk_{short}_reset_fresh<const P: usize, const K: usize>() {{
    let mut a = {ty}::new(P).unwrap();
    let mut i = 0;
    while i < K {{ {feed.replace('ind.', 'a.')} i += 1; }}
    a.reset();
    let mut b = {ty}::new(P).unwrap();
    assert!(a.index == b.index && a.count == b.count && a.period == b.period);
{''.join('    assert!(a.%s.to_bits() == b.%s.to_bits());' % (f, f) + chr(10) for f in flds)}    let mut j = 0;
    while j < P {{ assert!(a.deque[j].to_bits() == b.deque[j].to_bits()); j += 1; }}
}}
// @harness vk_{short}_reset_fresh_p2 props=C04 kind=bounded(period=2,history=5) tier=quick
#[kani::proof] #[kani::unwind(8)] fn vk_{short}_reset_fresh_p2() {{ vk_{short}_reset_fresh::<2, 5>() }}
// @harness vk_{short}_reset_fresh_p3 props=C04 kind=bounded(period=3,history=7) tier={'thorough' if short in ('sd',) else 'quick'}
#[kani::proof] #[kani::unwind(10)] fn vk_{short}_reset_fresh_p3() {{ vk_{short}_reset_fresh::<3, 7>() }}
'''
    inits = ''.join('%s: kani::any(), ' % f for f in flds)
    cmp_ = ''.join('    assert!(c.%s.to_bits() == m.%s.to_bits());' % (f, f) + chr(10) for f in flds)
    out += f'''
// derived Clone is a deep copy (any field values): fieldwise bit-equal, distinct buffer allocation, and feeding the clone
// leaves every slot of the original untouched
fn vk_{short}_clone_deep<const P: usize>() {{
    let a: [f64; P] = kani::any();
    let index: usize = kani::any();
    kani::assume(index < P);
    let count: usize = kani::any();
    kani::assume(count <= P && (count == P || index == count));
    let m = {ty} {{ period: P, index, count, {inits}deque: Box::new(a) }};
    let mut c = m.clone();
    assert!(c.period == m.period && c.index == m.index && c.count == m.count);
{cmp_}    let mut before = [0u64; P];
    let mut i = 0;
    while i < P {{ assert!(c.deque[i].to_bits() == m.deque[i].to_bits()); before[i] = m.deque[i].to_bits(); i += 1; }}
    assert!(c.deque.as_ptr() != m.deque.as_ptr());
    {feed.replace('ind.', 'c.')}
    let mut j = 0;
    while j < P {{ assert!(m.deque[j].to_bits() == before[j]); j += 1; }}
    assert!(m.index == index && m.count == count);
}}
// @harness vk_{short}_clone_deep_p2 props=C05 kind=bounded(period=2) tier=quick
#[kani::proof] #[kani::unwind(6)] fn vk_{short}_clone_deep_p2() {{ vk_{short}_clone_deep::<2>() }}
'''
    zero_ = ''.join('    assert!(b.%s.to_bits() == 0.0f64.to_bits());' % f + chr(10) for f in flds)
    out += f'''
// no hidden state shared between instances: after another instance of the same period was used (past a wrap-around) and
// dropped, a new instance starts from exactly the documented initial state (all-zero window, zero cursors)
fn vk_{short}_fresh_after_other<const P: usize, const K: usize>() {{
    {{
        let mut a = {ty}::new(P).unwrap();
        let mut i = 0;
        while i < K {{ {feed.replace('ind.', 'a.')} i += 1; }}
    }}
    let b = {ty}::new(P).unwrap();
    assert!(b.index == 0 && b.count == 0 && b.period == P && b.deque.len() == P);
{zero_}    let mut j = 0;
    while j < P {{ assert!(b.deque[j].to_bits() == 0.0f64.to_bits()); j += 1; }}
}}
// @harness vk_{short}_fresh_after_other_p2 props=C05 kind=bounded(period=2,history=3) tier=quick
#[kani::proof] #[kani::unwind(6)] fn vk_{short}_fresh_after_other_p2() {{ vk_{short}_fresh_after_other::<2, 3>() }}
'''
    open(os.path.join(here, mod + '.rs'), 'w').write(out)
    print(mod)
