fn vk_small2() -> f64 { let v: i8 = kani::any(); kani::assume(v >= -4 && v <= 4); v as f64 }

struct VkCV { c: f64, v: f64 }
impl Close for VkCV { fn close(&self) -> f64 { self.c } }
impl Volume for VkCV { fn volume(&self) -> f64 { self.v } }
// OBV = running sum of +volume, -volume or 0 by the sign of the close change (first close compared with 0)
// @harness vk_obv_matches_reference props=C03 kind=bounded(steps=4) tier=quick
#[kani::proof] #[kani::unwind(7)]
fn vk_obv_matches_reference() {
    let mut ind = OnBalanceVolume::new();
    let mut total = 0.0;
    let mut prev = 0.0;
    let mut t = 0;
    while t < 4 {
        let bar = VkCV { c: vk_small2(), v: vk_small2().abs() };
        if bar.c > prev { total = total + bar.v; } else if bar.c < prev { total = total - bar.v; }
        prev = bar.c;
        let out = ind.next(&bar);
        assert!(out == total);
        t += 1;
    }
}
