verus! {
pub uninterp spec fn abs_spec(x: f64) -> f64;
pub assume_specification [f64::abs] (x: f64) -> (r: f64) ensures r == abs_spec(x);
pub open spec fn rabs(x: real) -> real { if x >= 0real { x } else { 0real - x } }
pub broadcast axiom fn ax_abs(x: f64) ensures fin(x) ==> fin(#[trigger] abs_spec(x)) && rv(abs_spec(x)) == rabs(rv(x));
pub trait Next<T> {
    type Output;
    spec fn next_req(&self, input: T) -> bool;
    spec fn next_ens(&self, post: &Self, input: T, out: Self::Output) -> bool;
    fn next(&mut self, input: T) -> (out: Self::Output)
        requires old(self).next_req(input),
        ensures old(self).next_ens(final(self), input, out);
}
// length of the polyline start -> s[0] -> s[1] -> ... 
pub open spec fn path_len(start: real, s: Seq<f64>) -> real decreases s.len() {
    if s.len() == 0 { 0real } else { path_len(start, s.drop_last()) + rabs(path_end(start, s.drop_last()) - rv(s.last())) }
}
pub open spec fn path_end(start: real, s: Seq<f64>) -> real { if s.len() == 0 { start } else { rv(s.last()) } }
pub proof fn lemma_path_concat(start: real, a: Seq<f64>, b: Seq<f64>)
    ensures path_len(start, a + b) == path_len(start, a) + path_len(path_end(start, a), b),
            path_end(start, a + b) == path_end(path_end(start, a), b),
    decreases b.len()
{
    if b.len() == 0 { assert(a + b =~= a); } else {
        assert((a + b).drop_last() =~= a + b.drop_last());
        assert((a + b).last() == b.last());
        lemma_path_concat(start, a, b.drop_last());
    }
}
pub proof fn lemma_path_triangle(start: real, s: Seq<f64>)
    ensures rabs(start - path_end(start, s)) <= path_len(start, s), path_len(start, s) >= 0real
    decreases s.len()
{
    if s.len() > 0 { lemma_path_triangle(start, s.drop_last()); }
}

pub struct Er { period: usize, index: usize, count: usize, deque: Box<[f64]> }
impl Er {
    pub closed spec fn win(&self) -> Seq<f64> { ring_win(self.deque@, self.index as int, self.count as int) }
    pub closed spec fn per(&self) -> int { self.period as int }
    pub closed spec fn shape_ok(&self) -> bool { ring_ok(self.deque@, self.index as int, self.count as int) && self.deque@.len() == self.period }
    pub closed spec fn num_ok(&self) -> bool {
        &&& all_fin(self.deque@)
        &&& (self.count == 0 ==> rv(self.deque@[0]) == 0real)
    }
    pub closed spec fn first_val(&self) -> real { if self.count == 0 { 0real } else { rv(self.win()[0]) } }
}
impl Next<f64> for Er {
    type Output = f64;
    open spec fn next_req(&self, input: f64) -> bool { self.shape_ok() }
    open spec fn next_ens(&self, post: &Self, input: f64, out: f64) -> bool { 
        &&& post.shape_ok() && post.per() == self.per() 
        &&& self.num_ok() && fin(input) ==> {
            &&& post.num_ok()
            &&& post.win() == push_trunc(self.win(), input, self.per())
            &&& path_len(self.first_val(), post.win()) != 0real ==> {
                  &&& fin(out) && rv(out) == rabs(self.first_val() - rv(input)) / path_len(self.first_val(), post.win())
                  &&& 0real <= rv(out) <= 1real
            }
        }
    }
    fn next(&mut self, input: f64) -> f64 {
        broadcast use f64_axioms; broadcast use ax_abs;
        proof { lemma_ring_step(self.deque@, self.index as int, self.count as int, input); ax_lit_0(); }
        let first = if self.count >= self.period {
            self.deque[self.index]
        } else {
            self.count = self.count + (1);
            self.deque[0]
        };
        self.deque[self.index] = input;

        self.index = if self.index + 1 < self.period {
            self.index + 1
        } else {
            0
        };
        let ghost good = old(self).num_ok() && fin(input);
        let ghost f0 = old(self).first_val();
        proof {
            if good {
                assert(self.win() =~= push_trunc(old(self).win(), input, old(self).per()));
                assert(rv(first) == f0);
                assert(all_fin(self.deque@));
            }
        }

        let mut volatility = 0.0;
        let mut previous = first;
        let ghost d = self.deque@; let ghost i0 = self.index as int; let ghost c0 = self.count as int;
        for n in it: &self.deque[self.index..self.count] 
            invariant self.deque@ == d, self.index == i0, self.count == c0, i0 <= c0 <= d.len(), it.index@ <= c0 - i0,
                good ==> all_fin(d) && fin(first) && fin(volatility) && fin(previous) 
                    && rv(volatility) == path_len(rv(first), d.subrange(i0, i0 + it.index@))
                    && rv(previous) == path_end(rv(first), d.subrange(i0, i0 + it.index@)),
        {
            broadcast use f64_axioms; broadcast use ax_abs;
            proof { assert(d.subrange(i0, i0 + it.index@ + 1).drop_last() =~= d.subrange(i0, i0 + it.index@)); }
            volatility = volatility + ((previous - n).abs());
            previous = *n;
        }
        let ghost v1 = volatility; let ghost p1 = previous;
        for n in it: &self.deque[0..self.index] 
            invariant self.deque@ == d, self.index == i0, self.count == c0, i0 <= c0 <= d.len(), it.index@ <= i0,
                good ==> all_fin(d) && fin(first) && fin(volatility) && fin(previous) 
                    && rv(volatility) == rv(v1) + path_len(rv(p1), d.subrange(0, it.index@ as int))
                    && rv(previous) == path_end(rv(p1), d.subrange(0, it.index@ as int)),
        {
            broadcast use f64_axioms; broadcast use ax_abs;
            proof { assert(d.subrange(0, it.index@ + 1).drop_last() =~= d.subrange(0, it.index@ as int)); }
            volatility = volatility + ((previous - n).abs());
            previous = *n;
        }
        proof {
            if good {
                lemma_path_concat(rv(first), d.subrange(i0, c0), d.subrange(0, i0));
                assert(d.subrange(i0, c0) + d.subrange(0, i0) =~= self.win());
                assert(rv(volatility) == path_len(f0, self.win()));
                lemma_path_triangle(f0, self.win());
                assert(path_end(f0, self.win()) == rv(input));
                if rv(volatility) != 0real {
                    alg_ratio_le_one(rabs(f0 - rv(input)), rv(volatility));
                }
            }
        }

        (first - input).abs() / volatility
    }
}
pub proof fn alg_ratio_le_one(a: real, b: real)
   requires 0real <= a <= b, b > 0real
   ensures 0real <= a / b <= 1real
{ assert(0real <= a / b <= 1real) by(nonlinear_arith) requires 0real <= a <= b, b > 0real; }
}
fn main() {}
