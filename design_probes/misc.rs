verus! {
#[derive(Debug, PartialEq, Eq, Clone)]
pub enum TaError { InvalidParameter, DataItemIncomplete, DataItemInvalid }
pub type Result<T> = std::result::Result<T, TaError>;

pub trait Reset { 
    spec fn reset_ens(&self, post: &Self) -> bool;
    spec fn reset_req(&self) -> bool;
    fn reset(&mut self) requires old(self).reset_req(), ensures old(self).reset_ens(final(self)); 
}
pub trait Period { 
    spec fn period_spec(&self) -> usize;
    fn period(&self) -> (r: usize) ensures r == self.period_spec(); 
}
pub trait Next<T> {
    type Output;
    spec fn next_req(&self, input: T) -> bool;
    spec fn next_ens(&self, post: &Self, input: T, out: Self::Output) -> bool;
    fn next(&mut self, input: T) -> (out: Self::Output)
        requires old(self).next_req(input),
        ensures old(self).next_ens(final(self), input, out);
}

pub struct Ema { period: usize, k: f64, current: f64, is_new: bool }
impl Ema {
    pub closed spec fn wf(&self) -> bool { self.period >= 1 && fin(self.k) && 0real < rv(self.k) <= 1real && rv(self.k) * ((self.period + 1) as real) == 2real && (!self.is_new ==> fin(self.current)) }
    pub closed spec fn fresh(&self) -> bool { self.is_new }
    pub closed spec fn per(&self) -> usize { self.period }
    pub fn new(period: usize) -> (r: Result<Self>) 
        ensures period == 0 <==> r is Err, 
                r is Err ==> r->Err_0 == TaError::InvalidParameter,
                r is Ok ==> r->Ok_0.wf() && r->Ok_0.fresh() && r->Ok_0.per() == period,
    {
        broadcast use f64_axioms;
        match period {
            0 => Err(TaError::InvalidParameter),
            _ => Ok(Self {
                period,
                k: 2.0 / usize_as_f64(period + 1),
                current: 0.0,
                is_new: true,
            }),
        }
    }
}
impl Period for Ema {
    closed spec fn period_spec(&self) -> usize { self.period }
    fn period(&self) -> usize { self.period }
}
impl Reset for Ema {
    open spec fn reset_req(&self) -> bool { self.wf() }
    open spec fn reset_ens(&self, post: &Self) -> bool { post.wf() && post.fresh() && post.per() == self.per() }
    fn reset(&mut self) {
        self.current = 0.0;
        self.is_new = true;
    }
}
impl Default for Ema {
    fn default() -> (r: Self) ensures r.wf() && r.per() == 9 {
        Self::new(9).unwrap()
    }
}
pub struct Macd { fast_ema: Ema, slow_ema: Ema }
impl Macd {
    pub fn new(fast_period: usize, slow_period: usize) -> (r: Result<Self>) 
       ensures (fast_period == 0 || slow_period == 0) <==> r is Err
    {
        Ok(Self {
            fast_ema: Ema::new(fast_period)?,
            slow_ema: Ema::new(slow_period)?,
        })
    }
}
}
fn main() {}
