#!/usr/bin/env python3
"""Confirm seeded changes and run the checks against them.

usage: tools_seed_eval.py import <Cxx> <i> <src SEED dir>   copy patch/demo/meta into /verif/seeded/<Cxx>-<i>/ and confirm it
       tools_seed_eval.py run [<id> ...]                    apply each kept patch to /repo, run every claimed check, undo

confirm = in a scratch worktree of /repo: (1) patch applies, (2) the existing suite passes with it,
(3) the demo fails with it, (4) the demo passes without it.
"""
import json
import os
import shutil
import subprocess
import sys
import tempfile

VERIF = '/verif'
REPO = '/repo'
SEEDED = os.path.join(VERIF, 'seeded')


def sh(cmd, cwd=None, timeout=1800):
    p = subprocess.run(cmd, shell=True, cwd=cwd, capture_output=True, text=True, timeout=timeout)
    return p.returncode, p.stdout + p.stderr


def confirm(sid):
    d = os.path.join(SEEDED, sid)
    wt = tempfile.mkdtemp(prefix='taverif-seedwt-')
    os.rmdir(wt)
    res = {}
    try:
        rc, out = sh('git -C %s worktree add -q --detach %s HEAD' % (REPO, wt))
        assert rc == 0, out
        env = 'CARGO_NET_OFFLINE=true CARGO_TARGET_DIR=%s/target' % wt
        rc, out = sh('git apply %s/patch.diff' % d, cwd=wt)
        res['applies'] = rc == 0
        if rc != 0:
            res['apply_error'] = out[-500:]
            return res
        rc, out = sh('%s cargo test --offline --workspace --no-fail-fast' % env, cwd=wt)
        res['suite_with_patch'] = [l for l in out.split('\n') if l.startswith('test result')]
        res['suite_passes_with_patch'] = (rc == 0 and 'test result: FAILED' not in out and '136 passed' in out)
        shutil.copy(os.path.join(d, 'demo.rs'), os.path.join(wt, 'tests', 'seed_demo.rs'))
        rc, out = sh('%s cargo test --offline --test seed_demo' % env, cwd=wt)
        res['demo_fails_with_patch'] = (rc != 0 and ('test result: FAILED' in out or 'could not compile' in out))
        res['demo_with_patch_tail'] = out[-1200:]
        sh('git apply -R %s/patch.diff' % d, cwd=wt)
        rc, out = sh('%s cargo test --offline --test seed_demo' % env, cwd=wt)
        res['demo_passes_without_patch'] = (rc == 0 and 'test result: ok' in out)
        res['demo_without_patch_tail'] = out[-500:]
        return res
    finally:
        sh('git -C %s worktree remove --force %s' % (REPO, wt))
        shutil.rmtree(wt, ignore_errors=True)


def claimed():
    m = json.load(open(os.path.join(VERIF, 'MANIFEST.json')))
    return [c['property_id'] for c in m['checks']]


def run_checks(sid):
    """the checks run against a scratch clone of /repo (VERIF_REPO) with the patch applied; evidence and replay files of
    these runs go to scratch directories so that /verif/evidence always describes the unchanged tree"""
    d = os.path.join(SEEDED, sid)
    clone = os.environ.get('SEED_CLONE', '/tmp/taverif-seed-repo')
    if not os.path.isdir(clone):
        rc, out = sh('git clone -q %s %s' % (REPO, clone))
        assert rc == 0, out
    sh('git -C %s fetch -q origin && git -C %s reset -q --hard origin/main && git -C %s clean -fdq' % (clone, clone, clone))
    if os.path.exists(os.path.join(REPO, 'Cargo.lock')):
        shutil.copy(os.path.join(REPO, 'Cargo.lock'), os.path.join(clone, 'Cargo.lock'))
    rc, out = sh('git -C %s apply %s/patch.diff' % (clone, d))
    assert rc == 0, out
    scratch = clone + '-out'
    os.makedirs(scratch + '/evidence', exist_ok=True)
    os.makedirs(scratch + '/replay', exist_ok=True)
    envp = 'VERIF_KANI_BATCH=1 VERIF_REPO=%s VERIF_EVID_DIR=%s/evidence VERIF_REPLAY_DIR=%s/replay ' % (clone, scratch, scratch)
    verdicts = {}
    try:
        for pid in claimed():
            rc, out = sh(envp + 'python3 check.py %s --tier quick' % pid, cwd=VERIF, timeout=3600)
            lines = [l for l in out.split('\n') if l.startswith(('VIOLATION', 'UNDECIDED', 'KNOWN', 'OK'))]
            verdicts[pid] = {'rc': rc, 'lines': lines[:6]}
            # keep the replay files of violations with the seed
            for l in lines:
                if l.startswith('VIOLATION'):
                    rp = l.split('replay=')[1].split()[0]
                    os.makedirs(os.path.join(d, 'replay'), exist_ok=True)
                    if os.path.exists(rp):
                        shutil.copy(rp, os.path.join(d, 'replay', os.path.basename(rp)))
    finally:
        sh('git -C %s checkout -- . && git -C %s clean -fdq' % (clone, clone))
    return verdicts


def main():
    if sys.argv[1] == 'import':
        pid, i, src = sys.argv[2], sys.argv[3], sys.argv[4]
        sid = '%s-%s' % (pid, sys.argv[5] if len(sys.argv) > 5 else i)
        d = os.path.join(SEEDED, sid)
        os.makedirs(d, exist_ok=True)
        shutil.copy(os.path.join(src, 'patch%s.diff' % i), os.path.join(d, 'patch.diff'))
        shutil.copy(os.path.join(src, 'demo%s.rs' % i), os.path.join(d, 'demo.rs'))
        shutil.copy(os.path.join(src, 'meta%s.md' % i), os.path.join(d, 'agent_notes.md'))
        res = confirm(sid)
        ok = res.get('applies') and res.get('suite_passes_with_patch') and res.get('demo_fails_with_patch') and res.get('demo_passes_without_patch')
        meta = {'id': sid, 'breaks_property': pid, 'confirmed': bool(ok), 'confirmation': res,
                'needs_to_manifest': open(os.path.join(d, 'agent_notes.md')).read()[:1500],
                'what_was_run': 'scratch worktree of /repo HEAD: git apply patch.diff; cargo test --offline --workspace (136 unit tests pass); tests/seed_demo.rs := demo.rs, cargo test --test seed_demo (fails); git apply -R; demo passes'}
        json.dump(meta, open(os.path.join(d, 'meta.json'), 'w'), indent=1)
        print(sid, 'confirmed' if ok else 'NOT CONFIRMED', {k: v for k, v in res.items() if isinstance(v, bool)})
        if not ok:
            return 1
        return 0
    if sys.argv[1] == 'import-neutral':
        name, i, src = sys.argv[2], sys.argv[3], sys.argv[4]
        sid = 'neutral-%s-%s' % (name, i)
        d = os.path.join(SEEDED, sid)
        os.makedirs(d, exist_ok=True)
        shutil.copy(os.path.join(src, 'patch%s.diff' % i), os.path.join(d, 'patch.diff'))
        shutil.copy(os.path.join(src, 'meta%s.md' % i), os.path.join(d, 'agent_notes.md'))
        wt = tempfile.mkdtemp(prefix='taverif-seedwt-')
        os.rmdir(wt)
        try:
            rc, out = sh('git -C %s worktree add -q --detach %s HEAD' % (REPO, wt))
            rc1, out1 = sh('git apply %s/patch.diff' % d, cwd=wt)
            rc2, out2 = sh('CARGO_NET_OFFLINE=true CARGO_TARGET_DIR=%s/target cargo test --offline --workspace --no-fail-fast' % wt, cwd=wt)
            ok = rc1 == 0 and rc2 == 0 and '136 passed' in out2 and 'test result: FAILED' not in out2
        finally:
            sh('git -C %s worktree remove --force %s' % (REPO, wt))
            shutil.rmtree(wt, ignore_errors=True)
        meta = {'id': sid, 'kind': 'neutral', 'breaks_property': None, 'confirmed': bool(ok),
                'what': open(os.path.join(d, 'agent_notes.md')).read()[:1200],
                'expected': 'no check reports a VIOLATION (exit 0, or exit 2 = undecided); the 136 unit tests pass with the change',
                'what_was_run': 'scratch worktree: git apply patch.diff; cargo test --offline --workspace'}
        json.dump(meta, open(os.path.join(d, 'meta.json'), 'w'), indent=1)
        print(sid, 'confirmed' if ok else 'NOT CONFIRMED')
        return 0
    if sys.argv[1] == 'reconfirm':
        for sid in sys.argv[2:]:
            d = os.path.join(SEEDED, sid)
            meta = json.load(open(os.path.join(d, 'meta.json')))
            res = confirm(sid)
            ok = res.get('applies') and res.get('suite_passes_with_patch') and res.get('demo_fails_with_patch') and res.get('demo_passes_without_patch')
            meta['confirmed'] = bool(ok)
            meta['confirmation'] = res
            json.dump(meta, open(os.path.join(d, 'meta.json'), 'w'), indent=1)
            print(sid, 'confirmed' if ok else 'NOT CONFIRMED')
        return 0
    if sys.argv[1] == 'run':
        ids = sys.argv[2:] or sorted(os.listdir(SEEDED))
        for sid in ids:
            mp = os.path.join(SEEDED, sid, 'meta.json')
            if not os.path.exists(mp):
                continue
            meta = json.load(open(mp))
            if not meta.get('confirmed'):
                continue
            v = run_checks(sid)
            meta['checks'] = v
            meta['detected_by'] = sorted(p for p, r in v.items() if r['rc'] == 1 and any(l.startswith('VIOLATION') for l in r['lines']))
            meta['errors'] = sorted(p for p, r in v.items() if r['rc'] not in (0, 1, 2) or (r['rc'] == 1 and not any(l.startswith('VIOLATION') for l in r['lines'])))
            meta['undecided'] = sorted(p for p, r in v.items() if r['rc'] == 2)
            meta['target_detected'] = meta['breaks_property'] in meta['detected_by']
            if meta.get('kind') == 'neutral':
                meta['false_alarm'] = bool(meta['detected_by'])
            json.dump(meta, open(mp, 'w'), indent=1)
            print(sid, 'target', meta['breaks_property'], 'detected_by', meta['detected_by'], 'undecided', meta['undecided'])
        return 0


if __name__ == '__main__':
    sys.exit(main())
