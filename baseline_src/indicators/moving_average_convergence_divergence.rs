use std::fmt;

use crate::errors::Result;
use crate::indicators::ExponentialMovingAverage as Ema;
use crate::{Close, Next, Period, Reset};
#[cfg(feature = "serde")]
use serde::{Deserialize, Serialize};

/// Moving average converge divergence (MACD).
///
/// The MACD indicator (or "oscillator") is a collection of three time series
/// calculated from historical price data, most often the closing price.
/// These three series are:
///
/// * The MACD series proper
/// * The "signal" or "average" series
/// * The "divergence" series which is the difference between the two
///
/// The MACD series is the difference between a "fast" (short period) exponential
/// moving average (EMA), and a "slow" (longer period) EMA of the price series.
/// The average series is an EMA of the MACD series itself.
///
/// # Formula
///
/// # Parameters
///
/// * _fast_period_ - period for the fast EMA. Default is 12.
/// * _slow_period_ - period for the slow EMA. Default is 26.
/// * _signal_period_ - period for the signal EMA. Default is 9.
///
/// # Example
///
/// ```
/// use ta::indicators::MovingAverageConvergenceDivergence as Macd;
/// use ta::Next;
///
/// let mut macd = Macd::new(3, 6, 4).unwrap();
///
/// assert_eq!(round(macd.next(2.0).into()), (0.0, 0.0, 0.0));
/// assert_eq!(round(macd.next(3.0).into()), (0.21, 0.09, 0.13));
/// assert_eq!(round(macd.next(4.2).into()), (0.52, 0.26, 0.26));
/// assert_eq!(round(macd.next(7.0).into()), (1.15, 0.62, 0.54));
/// assert_eq!(round(macd.next(6.7).into()), (1.15, 0.83, 0.32));
/// assert_eq!(round(macd.next(6.5).into()), (0.94, 0.87, 0.07));
///
/// fn round(nums: (f64, f64, f64)) -> (f64, f64, f64) {
///     let n0 = (nums.0 * 100.0).round() / 100.0;
///     let n1 = (nums.1 * 100.0).round() / 100.0;
///     let n2 = (nums.2 * 100.0).round() / 100.0;
///     (n0, n1, n2)
/// }
/// ```
#[doc(alias = "MACD")]
#[cfg_attr(feature = "serde", derive(Serialize, Deserialize))]
#[derive(Debug, Clone)]
pub struct MovingAverageConvergenceDivergence {
    fast_ema: Ema,
    slow_ema: Ema,
    signal_ema: Ema,
}

impl MovingAverageConvergenceDivergence {
    pub fn new(fast_period: usize, slow_period: usize, signal_period: usize) -> Result<Self> {
        Ok(Self {
            fast_ema: Ema::new(fast_period)?,
            slow_ema: Ema::new(slow_period)?,
            signal_ema: Ema::new(signal_period)?,
        })
    }
}

#[derive(Debug, Clone, PartialEq)]
pub struct MovingAverageConvergenceDivergenceOutput {
    pub macd: f64,
    pub signal: f64,
    pub histogram: f64,
}

impl From<MovingAverageConvergenceDivergenceOutput> for (f64, f64, f64) {
    fn from(mo: MovingAverageConvergenceDivergenceOutput) -> Self {
        (mo.macd, mo.signal, mo.histogram)
    }
}

impl Next<f64> for MovingAverageConvergenceDivergence {
    type Output = MovingAverageConvergenceDivergenceOutput;

    fn next(&mut self, input: f64) -> Self::Output {
        let fast_val = self.fast_ema.next(input);
        let slow_val = self.slow_ema.next(input);

        let macd = fast_val - slow_val;
        let signal = self.signal_ema.next(macd);
        let histogram = macd - signal;

        MovingAverageConvergenceDivergenceOutput {
            macd,
            signal,
            histogram,
        }
    }
}

impl<T: Close> Next<&T> for MovingAverageConvergenceDivergence {
    type Output = MovingAverageConvergenceDivergenceOutput;

    fn next(&mut self, input: &T) -> Self::Output {
        self.next(input.close())
    }
}

impl Reset for MovingAverageConvergenceDivergence {
    fn reset(&mut self) {
        self.fast_ema.reset();
        self.slow_ema.reset();
        self.signal_ema.reset();
    }
}

impl Default for MovingAverageConvergenceDivergence {
    fn default() -> Self {
        Self::new(12, 26, 9).unwrap()
    }
}

impl fmt::Display for MovingAverageConvergenceDivergence {
    fn fmt(&self, f: &mut fmt::Formatter) -> fmt::Result {
        write!(
            f,
            "MACD({}, {}, {})",
            self.fast_ema.period(),
            self.slow_ema.period(),
            self.signal_ema.period()
        )
    }
}

#[cfg(test)]
mod tests {
    use super::*;
    use crate::test_helper::*;
    type Macd = MovingAverageConvergenceDivergence;

    test_indicator!(Macd);

    fn round(nums: (f64, f64, f64)) -> (f64, f64, f64) {
        let n0 = (nums.0 * 100.0).round() / 100.0;
        let n1 = (nums.1 * 100.0).round() / 100.0;
        let n2 = (nums.2 * 100.0).round() / 100.0;
        (n0, n1, n2)
    }

    #[test]
    fn test_new() {
        assert!(Macd::new(0, 1, 1).is_err());
        assert!(Macd::new(1, 0, 1).is_err());
        assert!(Macd::new(1, 1, 0).is_err());
        assert!(Macd::new(1, 1, 1).is_ok());
    }

    #[test]
    fn test_macd() {
        let mut macd = Macd::new(3, 6, 4).unwrap();

        assert_eq!(round(macd.next(2.0).into()), (0.0, 0.0, 0.0));
        assert_eq!(round(macd.next(3.0).into()), (0.21, 0.09, 0.13));
        assert_eq!(round(macd.next(4.2).into()), (0.52, 0.26, 0.26));
        assert_eq!(round(macd.next(7.0).into()), (1.15, 0.62, 0.54));
        assert_eq!(round(macd.next(6.7).into()), (1.15, 0.83, 0.32));
        assert_eq!(round(macd.next(6.5).into()), (0.94, 0.87, 0.07));
    }

    #[test]
    fn test_reset() {
        let mut macd = Macd::new(3, 6, 4).unwrap();

        assert_eq!(round(macd.next(2.0).into()), (0.0, 0.0, 0.0));
        assert_eq!(round(macd.next(3.0).into()), (0.21, 0.09, 0.13));

        macd.reset();

        assert_eq!(round(macd.next(2.0).into()), (0.0, 0.0, 0.0));
        assert_eq!(round(macd.next(3.0).into()), (0.21, 0.09, 0.13));
    }

    #[test]
    fn test_default() {
        Macd::default();
    }

    #[test]
    fn test_display() {
        let indicator = Macd::new(13, 30, 10).unwrap();
        assert_eq!(format!("{}", indicator), "MACD(13, 30, 10)");
    }
}
