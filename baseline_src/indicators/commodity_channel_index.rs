use std::fmt;

#[cfg(feature = "serde")]
use serde::{Deserialize, Serialize};

use crate::errors::Result;
use crate::indicators::{MeanAbsoluteDeviation, SimpleMovingAverage};
use crate::{Close, High, Low, Next, Period, Reset};

/// Commodity Channel Index (CCI)
///
/// The commodity channel index is an oscillator originally introduced by Donald Lambert in 1980.
///
/// Since its introduction, the indicator has grown in popularity and is now a very common tool for
/// traders in identifying cyclical trends not only in commodities but also equities and currencies.
/// The CCI can be adjusted to the timeframe of the market traded on by changing the averaging period.
///
/// # Formula
///
/// CCI(_period_) = (TP - SMA(_period_) of TP) / (MAD(_period_) * 0.015)
///
/// # Parameters
///
/// * _period_ - number of periods (integer greater than 0). Default is 20.
///
/// # Links
///
/// * [Commodity Channel Index, Wikipedia](https://en.wikipedia.org/wiki/Commodity_channel_index)
/// * [Commodity Channel Index, StockCharts](https://school.stockcharts.com/doku.php?id=technical_indicators:commodity_channel_index_cci)
///
#[cfg_attr(feature = "serde", derive(Serialize, Deserialize))]
#[derive(Debug, Clone)]
pub struct CommodityChannelIndex {
    sma: SimpleMovingAverage,
    mad: MeanAbsoluteDeviation,
}

impl CommodityChannelIndex {
    pub fn new(period: usize) -> Result<Self> {
        Ok(Self {
            sma: SimpleMovingAverage::new(period)?,
            mad: MeanAbsoluteDeviation::new(period)?,
        })
    }
}

impl Period for CommodityChannelIndex {
    fn period(&self) -> usize {
        self.sma.period()
    }
}

impl<T: Close + High + Low> Next<&T> for CommodityChannelIndex {
    type Output = f64;

    fn next(&mut self, input: &T) -> Self::Output {
        let tp = (input.close() + input.high() + input.low()) / 3.0;
        let sma = self.sma.next(tp);
        let mad = self.mad.next(tp);

        if mad == 0.0 {
            return 0.0;
        }

        (tp - sma) / (mad * 0.015)
    }
}

impl Reset for CommodityChannelIndex {
    fn reset(&mut self) {
        self.sma.reset();
        self.mad.reset();
    }
}

impl Default for CommodityChannelIndex {
    fn default() -> Self {
        Self::new(20).unwrap()
    }
}

impl fmt::Display for CommodityChannelIndex {
    fn fmt(&self, f: &mut fmt::Formatter) -> fmt::Result {
        write!(f, "CCI({})", self.sma.period())
    }
}

#[cfg(test)]
mod tests {
    use super::*;
    use crate::test_helper::*;

    #[test]
    fn test_new() {
        assert!(CommodityChannelIndex::new(0).is_err());
        assert!(CommodityChannelIndex::new(1).is_ok());
    }

    #[test]
    fn test_next_bar() {
        let mut cci = CommodityChannelIndex::new(5).unwrap();

        let bar1 = Bar::new().high(2).low(1).close(1.5);
        assert_eq!(round(cci.next(&bar1)), 0.0);

        let bar2 = Bar::new().high(5).low(3).close(4);
        assert_eq!(round(cci.next(&bar2)), 66.667);

        let bar3 = Bar::new().high(9).low(7).close(8);
        assert_eq!(round(cci.next(&bar3)), 100.0);

        let bar4 = Bar::new().high(5).low(3).close(4);
        assert_eq!(round(cci.next(&bar4)), -13.793);

        let bar5 = Bar::new().high(5).low(3).close(4);
        assert_eq!(round(cci.next(&bar5)), -13.514);

        let bar6 = Bar::new().high(2).low(1).close(1.5);
        assert_eq!(round(cci.next(&bar6)), -126.126);
    }

    #[test]
    fn test_reset() {
        let mut cci = CommodityChannelIndex::new(5).unwrap();

        let bar1 = Bar::new().high(2).low(1).close(1.5);
        let bar2 = Bar::new().high(5).low(3).close(4);

        assert_eq!(round(cci.next(&bar1)), 0.0);
        assert_eq!(round(cci.next(&bar2)), 66.667);

        cci.reset();

        assert_eq!(round(cci.next(&bar1)), 0.0);
        assert_eq!(round(cci.next(&bar2)), 66.667);
    }

    #[test]
    fn test_default() {
        CommodityChannelIndex::default();
    }

    #[test]
    fn test_display() {
        let indicator = CommodityChannelIndex::new(10).unwrap();
        assert_eq!(format!("{}", indicator), "CCI(10)");
    }
}
