use std::fmt;

use crate::errors::Result;
use crate::indicators::{AverageTrueRange, ExponentialMovingAverage};
use crate::{Close, High, Low, Next, Period, Reset};
#[cfg(feature = "serde")]
use serde::{Deserialize, Serialize};

/// Keltner Channel (KC).
///
/// A Keltner Channel is an indicator showing the Average True Range (ATR) of a
/// price surrounding a central moving average. The ATR bands are typically
/// shown 'k' times moved away from the moving average.
///
/// # Formula
///
/// See EMA, ATR documentation.
///
/// KC is composed as:
///
///  * _KC<sub>Middle Band</sub>_ - Exponential Moving Average (EMA).
///  * _KC<sub>Upper Band</sub>_ = EMA + ATR of observation * multipler (usually 2.0)
///  * _KC<sub>Lower Band</sub>_ = EMA - ATR of observation * multipler (usually 2.0)
///
/// # Example
///
///```
/// use ta::indicators::{KeltnerChannel, KeltnerChannelOutput};
/// use ta::Next;
///
/// let mut kc = KeltnerChannel::new(3, 2.0_f64).unwrap();
///
/// let out_0 = kc.next(2.0);
///
/// let out_1 = kc.next(5.0);
///
/// assert_eq!(out_0.average, 2.0);
/// assert_eq!(out_0.upper, 2.0);
/// assert_eq!(out_0.lower, 2.0);
///
/// assert_eq!(out_1.average, 3.5);
/// assert_eq!(out_1.upper, 6.5);
/// assert_eq!(out_1.lower, 0.5);
/// ```
///
/// # Links
///
/// * [Keltner channel, Wikipedia](https://en.wikipedia.org/wiki/Keltner_channel)
#[doc(alias = "KC")]
#[cfg_attr(feature = "serde", derive(Serialize, Deserialize))]
#[derive(Debug, Clone)]
pub struct KeltnerChannel {
    period: usize,
    multiplier: f64,
    atr: AverageTrueRange,
    ema: ExponentialMovingAverage,
}

#[derive(Debug, Clone, PartialEq)]
pub struct KeltnerChannelOutput {
    pub average: f64,
    pub upper: f64,
    pub lower: f64,
}

impl KeltnerChannel {
    pub fn new(period: usize, multiplier: f64) -> Result<Self> {
        Ok(Self {
            period,
            multiplier,
            atr: AverageTrueRange::new(period)?,
            ema: ExponentialMovingAverage::new(period)?,
        })
    }

    pub fn multiplier(&self) -> f64 {
        self.multiplier
    }
}

impl Period for KeltnerChannel {
    fn period(&self) -> usize {
        self.period
    }
}

impl Next<f64> for KeltnerChannel {
    type Output = KeltnerChannelOutput;

    fn next(&mut self, input: f64) -> Self::Output {
        let atr = self.atr.next(input);
        let average = self.ema.next(input);

        Self::Output {
            average,
            upper: average + atr * self.multiplier,
            lower: average - atr * self.multiplier,
        }
    }
}

impl<T: Close + High + Low> Next<&T> for KeltnerChannel {
    type Output = KeltnerChannelOutput;

    fn next(&mut self, input: &T) -> Self::Output {
        let typical_price = (input.close() + input.high() + input.low()) / 3.0;

        let average = self.ema.next(typical_price);
        let atr = self.atr.next(input);

        Self::Output {
            average,
            upper: average + atr * self.multiplier,
            lower: average - atr * self.multiplier,
        }
    }
}

impl Reset for KeltnerChannel {
    fn reset(&mut self) {
        self.atr.reset();
        self.ema.reset();
    }
}

impl Default for KeltnerChannel {
    fn default() -> Self {
        Self::new(10, 2_f64).unwrap()
    }
}

impl fmt::Display for KeltnerChannel {
    fn fmt(&self, f: &mut fmt::Formatter) -> fmt::Result {
        write!(f, "KC({}, {})", self.period, self.multiplier)
    }
}

#[cfg(test)]
mod tests {
    use super::*;
    use crate::test_helper::*;

    test_indicator!(KeltnerChannel);

    #[test]
    fn test_new() {
        assert!(KeltnerChannel::new(0, 2_f64).is_err());
        assert!(KeltnerChannel::new(1, 2_f64).is_ok());
        assert!(KeltnerChannel::new(2, 2_f64).is_ok());
    }

    #[test]
    fn test_next() {
        let mut kc = KeltnerChannel::new(3, 2.0_f64).unwrap();

        let a = kc.next(2.0);
        let b = kc.next(5.0);
        let c = kc.next(1.0);
        let d = kc.next(6.25);

        assert_eq!(round(a.average), 2.0);
        assert_eq!(round(b.average), 3.5);
        assert_eq!(round(c.average), 2.25);
        assert_eq!(round(d.average), 4.25);

        assert_eq!(round(a.upper), 2.0);
        assert_eq!(round(b.upper), 6.5);
        assert_eq!(round(c.upper), 7.75);
        assert_eq!(round(d.upper), 12.25);

        assert_eq!(round(a.lower), 2.0);
        assert_eq!(round(b.lower), 0.5);
        assert_eq!(round(c.lower), -3.25);
        assert_eq!(round(d.lower), -3.75);
    }

    #[test]
    fn test_next_with_data_item() {
        let mut kc = KeltnerChannel::new(3, 2.0_f64).unwrap();

        let dt1 = Bar::new().low(1.2).high(1.7).close(1.3); // typical_price = 1.4
        let o1 = kc.next(&dt1);
        assert_eq!(round(o1.average), 1.4);
        assert_eq!(round(o1.lower), 0.4);
        assert_eq!(round(o1.upper), 2.4);

        let dt2 = Bar::new().low(1.3).high(1.8).close(1.4); // typical_price = 1.5
        let o2 = kc.next(&dt2);
        assert_eq!(round(o2.average), 1.45);
        assert_eq!(round(o2.lower), 0.45);
        assert_eq!(round(o2.upper), 2.45);

        let dt3 = Bar::new().low(1.4).high(1.9).close(1.5); // typical_price = 1.6
        let o3 = kc.next(&dt3);
        assert_eq!(round(o3.average), 1.525);
        assert_eq!(round(o3.lower), 0.525);
        assert_eq!(round(o3.upper), 2.525);
    }

    #[test]
    fn test_reset() {
        let mut kc = KeltnerChannel::new(5, 2.0_f64).unwrap();

        let out = kc.next(3.0);

        assert_eq!(out.average, 3.0);
        assert_eq!(out.upper, 3.0);
        assert_eq!(out.lower, 3.0);

        kc.next(2.5);
        kc.next(3.5);
        kc.next(4.0);

        let out = kc.next(2.0);

        assert_eq!(round(out.average), 2.914);
        assert_eq!(round(out.upper), 4.864);
        assert_eq!(round(out.lower), 0.963);

        kc.reset();
        let out = kc.next(3.0);
        assert_eq!(out.average, 3.0);
        assert_eq!(out.lower, 3.0);
        assert_eq!(out.upper, 3.0);
    }

    #[test]
    fn test_default() {
        KeltnerChannel::default();
    }

    #[test]
    fn test_display() {
        let kc = KeltnerChannel::new(10, 3.0_f64).unwrap();
        assert_eq!(format!("{}", kc), "KC(10, 3)");
    }
}
