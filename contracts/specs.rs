// specs.rs -- woven into `pub mod vp` after prelude.rs.  NO trusted items here: only spec functions
// (the mathematical definitions the properties talk about) and proved lemmas.

// ---- from simple_moving_average.vspec
pub open spec fn seq_mean(w: Seq<f64>) -> real { seq_sum(w) / (w.len() as real) }

// ---- from exponential_moving_average.vspec
pub open spec fn ema_step(fresh: bool, cur: real, alpha: real, x: real) -> real {
    if fresh { x } else { alpha * x + (1real - alpha) * cur }
}
pub proof fn lemma_ema_convex(a: real, x: real, c: real, lo: real, hi: real)
    requires 0real <= a <= 1real, lo <= x <= hi, lo <= c <= hi
    ensures lo <= a * x + (1real - a) * c <= hi //#lemma
{
    assert(a * (x - lo) >= 0real) by(nonlinear_arith) requires a >= 0real, x - lo >= 0real;
    assert((1real - a) * (c - lo) >= 0real) by(nonlinear_arith) requires 1real - a >= 0real, c - lo >= 0real;
    assert(a * (hi - x) >= 0real) by(nonlinear_arith) requires a >= 0real, hi - x >= 0real;
    assert((1real - a) * (hi - c) >= 0real) by(nonlinear_arith) requires 1real - a >= 0real, hi - c >= 0real;
    assert(a * (x - lo) == a * x - a * lo) by(nonlinear_arith);
    assert((1real - a) * (c - lo) == c - lo - a * c + a * lo) by(nonlinear_arith);
    assert(a * (hi - x) == a * hi - a * x) by(nonlinear_arith);
    assert((1real - a) * (hi - c) == hi - c - a * hi + a * c) by(nonlinear_arith);
    assert((1real - a) * c == c - a * c) by(nonlinear_arith);
}

// ---- from exponential_moving_average.vspec
pub open spec fn ema_bound(v: real, lo: real, hi: real) -> real { v }

// ---- from true_range.vspec
pub open spec fn tr_scalar(prev: Option<f64>, x: real) -> real {
    match prev { Some(p) => rabs(x - rv(p)), None => 0real }
}
pub open spec fn tr_bar(prev: Option<f64>, h: real, l: real) -> real {
    match prev { Some(p) => rmax(rmax(h - l, rabs(h - rv(p))), rabs(l - rv(p))), None => h - l }
}


// ---- weighted sums (WMA): weights 1..k, oldest lightest, newest heaviest
pub open spec fn seq_wsum(s: Seq<f64>) -> real decreases s.len() {
    if s.len() == 0 { 0real } else { seq_wsum(s.drop_last()) + (s.len() as real) * rv(s.last()) }
}
pub open spec fn tri(k: real) -> real { k * (k + 1real) / 2real }
pub open spec fn seq_wmean(w: Seq<f64>) -> real { seq_wsum(w) / tri(w.len() as real) }
pub proof fn lemma_wsum_push(s: Seq<f64>, x: f64)
    ensures seq_wsum(s.push(x)) == seq_wsum(s) + ((s.len() + 1) as real) * rv(x)
{ assert(s.push(x).drop_last() =~= s); }
// dropping the oldest lowers every weight by one: wsum(s[1..]) = wsum(s) - sum(s)
pub proof fn lemma_wsum_drop_first(s: Seq<f64>)
    requires s.len() >= 1
    ensures seq_wsum(s.subrange(1, s.len() as int)) == seq_wsum(s) - seq_sum(s)
    decreases s.len()
{
    if s.len() == 1 {
        assert(s.drop_last() =~= Seq::<f64>::empty());
        assert(s.subrange(1, 1) =~= Seq::<f64>::empty());
        assert(seq_sum(s.drop_last()) == 0real);
        assert(seq_wsum(s.drop_last()) == 0real);
        assert(s.last() == s[0]);
        assert(1real * rv(s[0]) == rv(s[0])) by(nonlinear_arith);
    } else {
        let t = s.subrange(1, s.len() as int);
        lemma_wsum_drop_first(s.drop_last());
        assert(t.drop_last() =~= s.drop_last().subrange(1, s.len() - 1));
        assert(t.last() == s.last());
        let n = s.len() as real; let x = rv(s.last());
        assert(t.len() as real == n - 1real);
        assert((n - 1real) * x == n * x - x) by(nonlinear_arith);
    }
}
pub proof fn lemma_wsum_step(w: Seq<f64>, x: f64, n: int)
    requires n >= 1, w.len() <= n
    ensures seq_wsum(push_trunc(w, x, n)) ==
        (if w.len() < n { seq_wsum(w) + ((w.len() + 1) as real) * rv(x) } else { seq_wsum(w) - seq_sum(w) + (n as real) * rv(x) })
{
    if w.len() < n { lemma_wsum_push(w, x); }
    else {
        lemma_wsum_drop_first(w);
        lemma_wsum_push(w.subrange(1, w.len() as int), x);
    }
}
pub proof fn lemma_tri_pos(k: real)
    requires k >= 1real
    ensures tri(k) > 0real
{
    assert(k * (k + 1real) > 0real) by(nonlinear_arith) requires k >= 1real;
}

// ---- population variance (StandardDeviation, BollingerBands)
pub open spec fn seq_sumsq(s: Seq<f64>) -> real decreases s.len() {
    if s.len() == 0 { 0real } else { seq_sumsq(s.drop_last()) + rv(s.last()) * rv(s.last()) }
}
pub open spec fn seq_sqdev(s: Seq<f64>, mu: real) -> real decreases s.len() {
    if s.len() == 0 { 0real } else { seq_sqdev(s.drop_last(), mu) + (rv(s.last()) - mu) * (rv(s.last()) - mu) }
}
pub open spec fn seq_popvar(w: Seq<f64>) -> real { seq_sqdev(w, seq_mean(w)) / (w.len() as real) }
pub proof fn lemma_sumsq_push(s: Seq<f64>, x: f64)
    ensures seq_sumsq(s.push(x)) == seq_sumsq(s) + rv(x) * rv(x)
{ assert(s.push(x).drop_last() =~= s); }
pub proof fn lemma_sumsq_drop_first(s: Seq<f64>)
    requires s.len() >= 1
    ensures seq_sumsq(s.subrange(1, s.len() as int)) == seq_sumsq(s) - rv(s[0]) * rv(s[0])
    decreases s.len()
{
    if s.len() == 1 {
        assert(s.drop_last() =~= Seq::<f64>::empty());
        assert(s.subrange(1, 1) =~= Seq::<f64>::empty());
    } else {
        lemma_sumsq_drop_first(s.drop_last());
        assert(s.subrange(1, s.len() as int).drop_last() =~= s.drop_last().subrange(1, s.len() - 1));
    }
}
pub proof fn lemma_sumsq_step(w: Seq<f64>, x: f64, n: int)
    requires n >= 1, w.len() <= n
    ensures seq_sumsq(push_trunc(w, x, n)) == seq_sumsq(w) + rv(x) * rv(x) - (if w.len() < n { 0real } else { rv(w[0]) * rv(w[0]) })
{
    if w.len() < n { lemma_sumsq_push(w, x); }
    else { lemma_sumsq_drop_first(w); lemma_sumsq_push(w.subrange(1, w.len() as int), x); }
}
pub proof fn lemma_sqdev_expand(s: Seq<f64>, mu: real)
    ensures seq_sqdev(s, mu) == seq_sumsq(s) - 2real * mu * seq_sum(s) + (s.len() as real) * mu * mu
    decreases s.len()
{
    if s.len() > 0 {
        lemma_sqdev_expand(s.drop_last(), mu);
        let x = rv(s.last()); let n1 = (s.len() - 1) as real; let a = seq_sumsq(s.drop_last()); let b = seq_sum(s.drop_last());
        assert(s.len() as real == n1 + 1real);
        assert((a - 2real * mu * b + n1 * mu * mu) + (x - mu) * (x - mu) == (a + x * x) - 2real * mu * (b + x) + (n1 + 1real) * mu * mu) by(nonlinear_arith);
    }
}
pub proof fn lemma_sqdev_nonneg(s: Seq<f64>, mu: real)
    ensures seq_sqdev(s, mu) >= 0real
    decreases s.len()
{
    if s.len() > 0 { lemma_sqdev_nonneg(s.drop_last(), mu);
        let d = rv(s.last()) - mu; assert(d * d >= 0real) by(nonlinear_arith); }
}
pub proof fn alg_mean_update(m0: real, d: real, c: real)
    requires c != 0real
    ensures (m0 + d / c) * c == m0 * c + d
{ assert((m0 + d / c) * c == m0 * c + d) by(nonlinear_arith) requires c != 0real; }
pub proof fn alg_distr1(m: real, c: real) ensures m*(c+1real) == m*c + m
{ assert(m*(c+1real) == m*c + m) by(nonlinear_arith); }

pub open spec fn mean_ok(m: real, c: real, s: real) -> bool { m * c == s }
pub open spec fn m2_ok(m2: real, q: real, c: real, m: real) -> bool { m2 == q - c*m*m }

// one warm-up step of Welford's update keeps  m*c = sum  and  m2 = sumsq - c*m^2
pub proof fn step_grow(c: real, s0: real, q0: real, m0: real, m2_0: real, x: real, m1: real, m2_1: real)
    requires c >= 0real, mean_ok(m0, c, s0), m2_ok(m2_0, q0, c, m0),
        m1 == m0 + (x - m0) / (c + 1real),
        m2_1 == m2_0 + (x - m0) * (x - m1),
    ensures mean_ok(m1, c + 1real, s0 + x), m2_ok(m2_1, q0 + x*x, c + 1real, m1)
{
    alg_mean_update(m0, x - m0, c + 1real);
    alg_distr1(m0, c);
    assert(m1 * (c + 1real) == m0 * c + x);
    assert(x == m1*(c+1real) - m0*c);
    alg_grow(c, m0, m1);
}
// one sliding step (evict o, add x) keeps the same two invariants
pub proof fn step_slide(n: real, s0: real, q0: real, m0: real, m2_0: real, x: real, o: real, m1: real, m2_1: real)
    requires n >= 1real, mean_ok(m0, n, s0), m2_ok(m2_0, q0, n, m0),
        m1 == m0 + (x - o) / n,
        m2_1 == m2_0 + (x - o) * (x - m1 + o - m0),
    ensures mean_ok(m1, n, s0 - o + x), m2_ok(m2_1, q0 - o*o + x*x, n, m1)
{
    alg_mean_update(m0, x - o, n);
    assert(m1 * n == m0 * n + (x - o));
    let d = x - o;
    assert(x == o + d);
    alg_slide_a(d, o, m0, m1);
    alg_slide_b(n, m0, m1);
    assert(d == m1 * n - m0 * n);
    assert(m1 * n == n * m1 && m0 * n == n * m0) by(nonlinear_arith);
}
pub proof fn lemma_sqdev_at_mean(s: Seq<f64>, mu: real)
    requires mean_ok(mu, s.len() as real, seq_sum(s))
    ensures seq_sqdev(s, mu) == seq_sumsq(s) - (s.len() as real) * mu * mu
{
    lemma_sqdev_expand(s, mu);
    let c = s.len() as real; let q = seq_sumsq(s);
    assert(q - 2real * mu * (mu * c) + c * mu * mu == q - c * mu * mu) by(nonlinear_arith);
}

// ---- mean absolute deviation about the window mean
pub open spec fn seq_absdev(s: Seq<f64>, mu: real) -> real decreases s.len() {
    if s.len() == 0 { 0real } else { seq_absdev(s.drop_last(), mu) + rabs(rv(s.last()) - mu) }
}
pub open spec fn seq_mad(w: Seq<f64>) -> real { seq_absdev(w, seq_mean(w)) / (w.len() as real) }
pub proof fn lemma_absdev_push(s: Seq<f64>, x: f64, mu: real)
    ensures seq_absdev(s.push(x), mu) == seq_absdev(s, mu) + rabs(rv(x) - mu)
{ assert(s.push(x).drop_last() =~= s); }
pub proof fn lemma_absdev_concat(a: Seq<f64>, b: Seq<f64>, mu: real)
    ensures seq_absdev(a + b, mu) == seq_absdev(a, mu) + seq_absdev(b, mu)
    decreases b.len()
{
    if b.len() == 0 { assert(a + b =~= a); } else {
        assert((a + b).drop_last() =~= a + b.drop_last());
        assert((a + b).last() == b.last());
        lemma_absdev_concat(a, b.drop_last(), mu);
    }
}
pub proof fn lemma_absdev_nonneg(s: Seq<f64>, mu: real)
    ensures seq_absdev(s, mu) >= 0real
    decreases s.len()
{ if s.len() > 0 { lemma_absdev_nonneg(s.drop_last(), mu); } }
// the raw buffer prefix [0, count) is a rotation of the chronological window: same absolute deviation
pub proof fn lemma_absdev_ring(d: Seq<f64>, index: int, count: int, mu: real)
    requires ring_ok(d, index, count)
    ensures seq_absdev(d.subrange(0, count), mu) == seq_absdev(ring_win(d, index, count), mu)
{
    if count < d.len() { assert(ring_win(d, index, count) =~= d.subrange(0, count)); }
    else {
        lemma_absdev_concat(d.subrange(index, count), d.subrange(0, index), mu);
        lemma_absdev_concat(d.subrange(0, index), d.subrange(index, count), mu);
        assert(d.subrange(0, index) + d.subrange(index, count) =~= d.subrange(0, count));
    }
}

// ---- Minimum / Maximum: padded chronological window, order only (exact, no arithmetic)
pub open spec fn padp(x: f64) -> bool { fin(x) || pinf(x) }
pub open spec fn padn(x: f64) -> bool { fin(x) || ninf(x) }
pub open spec fn all_padp(s: Seq<f64>) -> bool { forall|i: int| 0 <= i < s.len() ==> padp(#[trigger] s[i]) }
pub open spec fn all_padn(s: Seq<f64>) -> bool { forall|i: int| 0 <= i < s.len() ==> padn(#[trigger] s[i]) }
pub open spec fn is_least(v: f64, s: Seq<f64>) -> bool {
    &&& exists|j: int| 0 <= j < s.len() && s[j] == v
    &&& forall|i: int| 0 <= i < s.len() ==> !ext_lt(#[trigger] s[i], v)
}
pub open spec fn is_greatest(v: f64, s: Seq<f64>) -> bool {
    &&& exists|j: int| 0 <= j < s.len() && s[j] == v
    &&& forall|i: int| 0 <= i < s.len() ==> !ext_lt(v, #[trigger] s[i])
}
pub open spec fn chron(d: Seq<f64>, cur: int) -> Seq<f64> { d.subrange(cur, d.len() as int) + d.subrange(0, cur) }
pub open spec fn shift_push(w: Seq<f64>, x: f64) -> Seq<f64> { w.subrange(1, w.len() as int).push(x) }
pub open spec fn all_eq(s: Seq<f64>, c: f64) -> bool { forall|i: int| 0 <= i < s.len() ==> #[trigger] s[i] == c }

pub proof fn lemma_chron_index(d: Seq<f64>, cur: int, i: int)
    requires 0 <= cur < d.len(), 0 <= i < d.len()
    ensures chron(d, cur).len() == d.len(),
        chron(d, cur)[i] == d[if i < d.len() - cur { i + cur } else { i - (d.len() - cur) }]
{}
pub proof fn lemma_least_rot(d: Seq<f64>, cur: int, v: f64)
    requires 0 <= cur < d.len(), is_least(v, d)
    ensures is_least(v, chron(d, cur))
{
    let n = d.len() as int;
    let j0 = choose|j: int| 0 <= j < d.len() && d[j] == v;
    let jj = if j0 >= cur { j0 - cur } else { j0 + n - cur };
    lemma_chron_index(d, cur, jj);
    assert(chron(d, cur)[jj] == v);
    assert forall|i: int| 0 <= i < chron(d, cur).len() implies !ext_lt(#[trigger] chron(d, cur)[i], v) by {
        lemma_chron_index(d, cur, i);
    }
}
pub proof fn lemma_greatest_rot(d: Seq<f64>, cur: int, v: f64)
    requires 0 <= cur < d.len(), is_greatest(v, d)
    ensures is_greatest(v, chron(d, cur))
{
    let n = d.len() as int;
    let j0 = choose|j: int| 0 <= j < d.len() && d[j] == v;
    let jj = if j0 >= cur { j0 - cur } else { j0 + n - cur };
    lemma_chron_index(d, cur, jj);
    assert(chron(d, cur)[jj] == v);
    assert forall|i: int| 0 <= i < chron(d, cur).len() implies !ext_lt(v, #[trigger] chron(d, cur)[i]) by {
        lemma_chron_index(d, cur, i);
    }
}
// writing x at the cursor and advancing it shifts the chronological window by one
pub proof fn lemma_chron_step(d: Seq<f64>, cur: int, x: f64)
    requires 0 <= cur < d.len()
    ensures chron(d.update(cur, x), next_index(cur, d.len() as int)) =~= shift_push(chron(d, cur), x)
{}

// the (real) value of the least / greatest element of a padded window; unique by lemma_least_rv
pub open spec fn win_min(s: Seq<f64>) -> real { rv(choose|v: f64| is_least(v, s)) }
pub open spec fn win_max(s: Seq<f64>) -> real { rv(choose|v: f64| is_greatest(v, s)) }
pub proof fn lemma_least_rv(v: f64, s: Seq<f64>)
    requires is_least(v, s), fin(v), all_padp(s)
    ensures rv(v) == win_min(s)
{
    let c = choose|c: f64| is_least(c, s);
    let jv = choose|j: int| 0 <= j < s.len() && s[j] == v;
    let jc = choose|j: int| 0 <= j < s.len() && s[j] == c;
    assert(!ext_lt(s[jv], c));
    assert(!ext_lt(s[jc], v));
    assert(padp(s[jc]));
    ax_class_excl(c);
    ax_class_excl(v);
}
pub proof fn lemma_greatest_rv(v: f64, s: Seq<f64>)
    requires is_greatest(v, s), fin(v), all_padn(s)
    ensures rv(v) == win_max(s)
{
    let c = choose|c: f64| is_greatest(c, s);
    let jv = choose|j: int| 0 <= j < s.len() && s[j] == v;
    let jc = choose|j: int| 0 <= j < s.len() && s[j] == c;
    assert(!ext_lt(c, s[jv]));
    assert(!ext_lt(v, s[jc]));
    assert(padn(s[jc]));
    ax_class_excl(c);
    ax_class_excl(v);
}
pub open spec fn fast_formula(lo: real, hi: real, x: real) -> real {
    if lo == hi { 50real } else { (x - lo) / (hi - lo) * 100real }
}
pub proof fn lemma_fast_range(lo: real, hi: real, x: real)
    requires lo <= x <= hi
    ensures 0real <= fast_formula(lo, hi, x) <= 100real
{
    if lo != hi {
        alg_div_le(x - lo, hi - lo);
        let q = (x - lo) / (hi - lo);
        assert(0real <= q * 100real <= 100real) by(nonlinear_arith) requires 0real <= q <= 1real;
    }
}

// ---- Bollinger / typical price
pub open spec fn is_sd(s: real, w: Seq<f64>) -> bool { s >= 0real && s * s == seq_popvar(w) }
pub open spec fn tp_rv(h: real, l: real, c: real) -> real { (c + h + l) / 3real }
// the f64 a typical-price computation `(close + high + low) / 3.0` produces (float spec terms of vstd)
pub open spec fn tp_f64(h: f64, l: f64, c: f64) -> f64 { c.add_spec(h).add_spec(l).div_spec(3.0f64) }
pub proof fn lemma_tp(h: f64, l: f64, c: f64)
    requires fin(h), fin(l), fin(c)
    ensures fin(tp_f64(h, l, c)), rv(tp_f64(h, l, c)) == tp_rv(rv(h), rv(l), rv(c))
{
    broadcast use f64_axioms;
    ax_lit();
}
pub open spec fn cci_formula(tp: real, sma: real, mad: real, lit015: real) -> real {
    if mad == 0real { 0real } else { (tp - sma) / (mad * lit015) }
}

// ---- RateOfChange
pub open spec fn roc_formula(x: real, prev: real) -> real { (x - prev) / prev * 100real }

// ---- RSI
pub proof fn alg_convex_nonneg(k: real, x: real, c: real)
    requires 0real < k <= 1real, x >= 0real, c >= 0real
    ensures k * x + (1real - k) * c >= 0real
{ assert(k * x + (1real - k) * c >= 0real) by(nonlinear_arith) requires 0real < k <= 1real, x >= 0real, c >= 0real; }
pub proof fn alg_pct(u: real, d: real)
    requires u >= 0real, d >= 0real, u + d != 0real
    ensures 0real <= 100real * u / (u + d) <= 100real
{ assert(0real <= 100real * u / (u + d) <= 100real) by(nonlinear_arith) requires u >= 0real, d >= 0real, u + d != 0real; }
pub proof fn alg_half(u: real)
    requires u > 0real
    ensures 100real * u / (u + u) == 50real
{ assert(100real * u / (u + u) == 50real) by(nonlinear_arith) requires u > 0real; }
pub open spec fn rsi_formula(u: real, d: real) -> real { 100real * u / (u + d) }

// ---- EfficiencyRatio: length of the polyline start -> s[0] -> s[1] -> ...
pub open spec fn path_end(start: real, s: Seq<f64>) -> real { if s.len() == 0 { start } else { rv(s.last()) } }
pub open spec fn path_len(start: real, s: Seq<f64>) -> real decreases s.len() {
    if s.len() == 0 { 0real } else { path_len(start, s.drop_last()) + rabs(path_end(start, s.drop_last()) - rv(s.last())) }
}
pub proof fn lemma_path_push(start: real, s: Seq<f64>, x: f64)
    ensures path_len(start, s.push(x)) == path_len(start, s) + rabs(path_end(start, s) - rv(x)), path_end(start, s.push(x)) == rv(x)
{ assert(s.push(x).drop_last() =~= s); }
pub proof fn lemma_path_concat(start: real, a: Seq<f64>, b: Seq<f64>)
    ensures path_len(start, a + b) == path_len(start, a) + path_len(path_end(start, a), b),
            path_end(start, a + b) == path_end(path_end(start, a), b),
    decreases b.len()
{
    if b.len() == 0 { assert(a + b =~= a); } else {
        assert((a + b).drop_last() =~= a + b.drop_last());
        assert((a + b).last() == b.last());
        lemma_path_concat(start, a, b.drop_last());
    }
}
pub proof fn lemma_path_triangle(start: real, s: Seq<f64>)
    ensures rabs(start - path_end(start, s)) <= path_len(start, s), path_len(start, s) >= 0real
    decreases s.len()
{
    if s.len() > 0 { lemma_path_triangle(start, s.drop_last()); }
}
pub open spec fn er_formula(first: real, x: real, vol: real) -> real { rabs(first - x) / vol }

// ---- MoneyFlowIndex: window of signed money flows (positive: typical price rose, negative: fell, 0: unchanged / first bar)
pub open spec fn rmax0(x: real) -> real { if x >= 0real { x } else { 0real } }
pub open spec fn seq_pos(s: Seq<f64>) -> real decreases s.len() { if s.len() == 0 { 0real } else { seq_pos(s.drop_last()) + rmax0(rv(s.last())) } }
pub open spec fn seq_neg(s: Seq<f64>) -> real decreases s.len() { if s.len() == 0 { 0real } else { seq_neg(s.drop_last()) + rmax0(0real - rv(s.last())) } }
pub proof fn lemma_pos_push(s: Seq<f64>, x: f64)
    ensures seq_pos(s.push(x)) == seq_pos(s) + rmax0(rv(x)), seq_neg(s.push(x)) == seq_neg(s) + rmax0(0real - rv(x))
{ assert(s.push(x).drop_last() =~= s); }
pub proof fn lemma_pos_drop_first(s: Seq<f64>)
    requires s.len() >= 1
    ensures seq_pos(s.subrange(1, s.len() as int)) == seq_pos(s) - rmax0(rv(s[0])), seq_neg(s.subrange(1, s.len() as int)) == seq_neg(s) - rmax0(0real - rv(s[0]))
    decreases s.len()
{
    if s.len() == 1 {
        assert(s.drop_last() =~= Seq::<f64>::empty());
        assert(s.subrange(1, 1) =~= Seq::<f64>::empty());
        assert(seq_pos(s.drop_last()) == 0real); assert(seq_neg(s.drop_last()) == 0real); assert(s.last() == s[0]);
    } else {
        lemma_pos_drop_first(s.drop_last());
        assert(s.subrange(1, s.len() as int).drop_last() =~= s.drop_last().subrange(1, s.len() - 1));
    }
}
pub proof fn lemma_pos_nonneg(s: Seq<f64>) ensures seq_pos(s) >= 0real, seq_neg(s) >= 0real decreases s.len()
{ if s.len() > 0 { lemma_pos_nonneg(s.drop_last()); } }
// MFI ring: cursor = last written slot; the slot of the first bar is never written and counts as flow 0
pub open spec fn mfi_ok(d: Seq<f64>, index: int, count: int) -> bool {
    &&& d.len() >= 1 && 0 <= index < d.len() && 0 <= count <= d.len()
    &&& (count < d.len() ==> index == count)
}
pub open spec fn mfi_win(d: Seq<f64>, index: int, count: int) -> Seq<f64> {
    let w = next_index(index, d.len() as int);
    if count < d.len() { d.subrange(1, count + 1) } else { d.subrange(w, d.len() as int) + d.subrange(0, w) }
}
pub open spec fn flow(prev_tp: real, tp: real, vol: real) -> real {
    if tp > prev_tp { tp * vol } else if tp < prev_tp { 0real - tp * vol } else { 0real }
}
pub open spec fn mfi_formula(pos: real, neg: real) -> real { pos / (pos + neg) * 100real }
pub proof fn alg_prod_nonneg(a: real, b: real) requires a >= 0real, b >= 0real ensures a * b >= 0real
{ assert(a * b >= 0real) by(nonlinear_arith) requires a >= 0real, b >= 0real; }
pub proof fn lemma_mfi_range(p: real, n: real)
    requires p >= 0real, n >= 0real, p + n != 0real
    ensures 0real <= mfi_formula(p, n) <= 100real
{
    alg_div_le(p, p + n);
    let q = p / (p + n);
    assert(0real <= q * 100real <= 100real) by(nonlinear_arith) requires 0real <= q <= 1real;
}
// the two slice loops of EfficiencyRatio::next walk the chronological window
pub proof fn lemma_er_path(d: Seq<f64>, i0: int, c0: int, f: real)
    requires ring_ok(d, i0, c0)
    ensures
        path_len(f, ring_win(d, i0, c0)) == path_len(f, d.subrange(i0, c0)) + path_len(path_end(f, d.subrange(i0, c0)), d.subrange(0, i0)),
        path_end(f, ring_win(d, i0, c0)) == path_end(path_end(f, d.subrange(i0, c0)), d.subrange(0, i0)),
        rabs(f - path_end(f, ring_win(d, i0, c0))) <= path_len(f, ring_win(d, i0, c0)),
        path_len(f, ring_win(d, i0, c0)) >= 0real,
{
    lemma_path_concat(f, d.subrange(i0, c0), d.subrange(0, i0));
    assert(d.subrange(i0, c0) + d.subrange(0, i0) =~= ring_win(d, i0, c0));
    lemma_path_triangle(f, ring_win(d, i0, c0));
}

// ---- range (C09) and flat-window (C08) facts about the window statistics -------------------------------------
pub open spec fn seq_bounded(w: Seq<f64>, lo: real, hi: real) -> bool { forall|i: int| 0 <= i < w.len() ==> lo <= rv(#[trigger] w[i]) <= hi }
pub open spec fn seq_const(w: Seq<f64>, c: real) -> bool { forall|i: int| 0 <= i < w.len() ==> rv(#[trigger] w[i]) == c }
pub proof fn lemma_sum_bounds(w: Seq<f64>, lo: real, hi: real)
    requires seq_bounded(w, lo, hi)
    ensures (w.len() as real) * lo <= seq_sum(w) <= (w.len() as real) * hi
    decreases w.len()
{
    if w.len() == 0 {
        assert(0real * lo == 0real && 0real * hi == 0real) by(nonlinear_arith);
    } else {
        assert(seq_bounded(w.drop_last(), lo, hi)) by {
            assert forall|i: int| 0 <= i < w.len() - 1 implies lo <= rv(#[trigger] w.drop_last()[i]) <= hi by { assert(lo <= rv(w[i]) <= hi); }
        }
        lemma_sum_bounds(w.drop_last(), lo, hi);
        assert(lo <= rv(w[w.len() - 1]) <= hi);
        let n1 = (w.len() - 1) as real;
        assert((n1 + 1real) * lo == n1 * lo + lo && (n1 + 1real) * hi == n1 * hi + hi) by(nonlinear_arith);
    }
}
pub proof fn lemma_mean_bounds(w: Seq<f64>, lo: real, hi: real)
    requires seq_bounded(w, lo, hi), w.len() >= 1
    ensures lo <= seq_mean(w) <= hi
{
    lemma_sum_bounds(w, lo, hi);
    let (s, n) = (seq_sum(w), w.len() as real);
    assert(lo <= s / n <= hi) by(nonlinear_arith) requires n >= 1real, n * lo <= s <= n * hi;
}
pub proof fn lemma_wsum_bounds(w: Seq<f64>, lo: real, hi: real)
    requires seq_bounded(w, lo, hi)
    ensures tri(w.len() as real) * lo <= seq_wsum(w) <= tri(w.len() as real) * hi
    decreases w.len()
{
    if w.len() == 0 {
        assert(tri(0real) == 0real) by(nonlinear_arith);
        assert(0real * lo == 0real && 0real * hi == 0real) by(nonlinear_arith);
    } else {
        assert(seq_bounded(w.drop_last(), lo, hi)) by {
            assert forall|i: int| 0 <= i < w.len() - 1 implies lo <= rv(#[trigger] w.drop_last()[i]) <= hi by { assert(lo <= rv(w[i]) <= hi); }
        }
        lemma_wsum_bounds(w.drop_last(), lo, hi);
        let x = rv(w[w.len() - 1]);
        assert(lo <= x <= hi);
        let k = w.len() as real;
        assert(tri(k) == tri(k - 1real) + k) by(nonlinear_arith);
        let t1 = tri(k - 1real);
        assert((t1 + k) * lo == t1 * lo + k * lo && (t1 + k) * hi == t1 * hi + k * hi) by(nonlinear_arith);
        assert(k * lo <= k * x <= k * hi) by(nonlinear_arith) requires k >= 1real, lo <= x <= hi;
    }
}
pub proof fn lemma_wmean_bounds(w: Seq<f64>, lo: real, hi: real)
    requires seq_bounded(w, lo, hi), w.len() >= 1
    ensures lo <= seq_wmean(w) <= hi
{
    lemma_wsum_bounds(w, lo, hi);
    lemma_tri_pos(w.len() as real);
    let (s, t) = (seq_wsum(w), tri(w.len() as real));
    assert(lo <= s / t <= hi) by(nonlinear_arith) requires t > 0real, t * lo <= s <= t * hi;
}
pub proof fn lemma_const_stats(w: Seq<f64>, c: real)
    requires seq_const(w, c), w.len() >= 1
    ensures seq_mean(w) == c, seq_sqdev(w, c) == 0real, seq_absdev(w, c) == 0real, seq_popvar(w) == 0real, seq_mad(w) == 0real
{
    assert(seq_bounded(w, c, c));
    lemma_mean_bounds(w, c, c);
    lemma_const_devs(w, c);
    let n = w.len() as real;
    assert(0real / n == 0real) by(nonlinear_arith) requires n >= 1real;
}
pub proof fn lemma_const_devs(w: Seq<f64>, c: real)
    requires seq_const(w, c)
    ensures seq_sqdev(w, c) == 0real, seq_absdev(w, c) == 0real
    decreases w.len()
{
    if w.len() > 0 {
        assert(seq_const(w.drop_last(), c)) by {
            assert forall|i: int| 0 <= i < w.len() - 1 implies rv(#[trigger] w.drop_last()[i]) == c by { assert(rv(w[i]) == c); }
        }
        lemma_const_devs(w.drop_last(), c);
        assert(rv(w[w.len() - 1]) == c);
        assert((c - c) * (c - c) == 0real) by(nonlinear_arith);
    }
}
pub proof fn lemma_square_zero(a: real)
    requires a * a == 0real
    ensures a == 0real
{
    if a != 0real { assert(a * a != 0real) by(nonlinear_arith) requires a != 0real; }
}
