"""Minimal lexical scanner for the Rust subset used by ta-rs.

Nothing here rewrites code: it only finds spans (items, impl members, statements, loops)
in the *masked* text (comments / string / char literals blanked out, same length as the source)
so that weave.py can delete whole items, and insert ghost text at structural anchors.
"""
import re

OPEN = {'(': ')', '[': ']', '{': '}'}
CLOSE = {')': '(', ']': '[', '}': '{'}


class ScanError(Exception):
    pass


def mask(src):
    """Return text of identical length with comments, string and char literals replaced by blanks
    (newlines kept). Doc comments are comments."""
    out = list(src)
    i, n = 0, len(src)

    def blank(a, b):
        for k in range(a, b):
            if out[k] != '\n':
                out[k] = ' '
    while i < n:
        c = src[i]
        if src.startswith('//', i):
            j = src.find('\n', i)
            j = n if j < 0 else j
            blank(i, j)
            i = j
        elif src.startswith('/*', i):
            depth, j = 1, i + 2
            while j < n and depth:
                if src.startswith('/*', j):
                    depth += 1
                    j += 2
                elif src.startswith('*/', j):
                    depth -= 1
                    j += 2
                else:
                    j += 1
            blank(i, j)
            i = j
        elif c == '"':
            j = i + 1
            while j < n and src[j] != '"':
                j += 2 if src[j] == '\\' else 1
            blank(i + 1, j)
            i = j + 1
        elif c == 'r' and re.match(r'r#*"', src[i:i + 8]) and (i == 0 or not (src[i - 1].isalnum() or src[i - 1] == '_')):
            m = re.match(r'r(#*)"', src[i:])
            term = '"' + m.group(1)
            j = src.find(term, i + len(m.group(0)))
            j = n if j < 0 else j
            blank(i + len(m.group(0)), j)
            i = j + len(term)
        elif c == "'":
            # char literal or lifetime
            if i + 1 < n and src[i + 1] == '\\':
                j = src.find("'", i + 2)
                blank(i + 1, j)
                i = j + 1
            elif i + 2 < n and src[i + 2] == "'":
                blank(i + 1, i + 2)
                i = i + 3
            else:
                i += 1
        else:
            i += 1
    return ''.join(out)


def match_close(m, i):
    """m[i] is an opening bracket; return index of its matching closer."""
    stack = []
    n = len(m)
    j = i
    while j < n:
        c = m[j]
        if c in OPEN:
            stack.append(c)
        elif c in CLOSE:
            if not stack or stack[-1] != CLOSE[c]:
                raise ScanError('unbalanced bracket at %d' % j)
            stack.pop()
            if not stack:
                return j
        j += 1
    raise ScanError('unclosed bracket at %d' % i)


def skip_ws(m, i, hi):
    while i < hi and m[i].isspace():
        i += 1
    return i


_KW = re.compile(r'\b(use|mod|struct|enum|impl|fn|trait|type|const|static|macro_rules|extern|group|assume_specification)\b')
_CONT = re.compile(r'[,=&|<>+\-*/.;?]|(ensures|requires|decreases|recommends|invariant|by|via|opens_invariants|no_unwind)\b')


class Item:
    __slots__ = ('kind', 'start', 'attr_end', 'hdr_end', 'end', 'body_lo', 'body_hi', 'name', 'header', 'attrs')

    def __repr__(self):
        return 'Item(%s %s %d..%d)' % (self.kind, self.name, self.start, self.end)


def split_items(src, m, lo, hi):
    """Items in m[lo:hi] (module level or inside an impl/trait body)."""
    items = []
    i = skip_ws(m, lo, hi)
    while i < hi:
        it = Item()
        it.start = i
        # attributes
        attrs = []
        while m.startswith('#', i):
            j = i + 1
            if m[j] == '!':
                j += 1
            j = skip_ws(m, j, hi)
            if m[j] != '[':
                raise ScanError('bad attribute at %d' % i)
            k = match_close(m, j)
            attrs.append(src[i:k + 1])
            i = skip_ws(m, k + 1, hi)
        it.attrs = attrs
        it.attr_end = i
        if i >= hi:
            raise ScanError('dangling attributes at %d' % it.start)
        mac = re.match(r'(?:pub(?:\s*\([^)]*\))?\s+)?([A-Za-z_][\w:]*)\s*!\s*([\{\(\[])', m[i:hi])
        if mac and mac.group(1) != 'macro_rules':
            # macro invocation in item position (thread_local!, lazy_static!, ...): kept verbatim as one opaque item
            j = i + mac.end() - 1
            k = match_close(m, j)
            e = k + 1
            p2 = skip_ws(m, e, hi)
            if p2 < hi and m[p2] == ';':
                e = p2 + 1
            it.kind, it.hdr_end, it.body_lo, it.body_hi, it.end = 'macro', j, -1, -1, e
            it.header = ' '.join(src[it.attr_end:j].split())
            it.name = mac.group(1)
            items.append(it)
            i = skip_ws(m, it.end, hi)
            continue
        km = _KW.search(m, i, hi)
        if not km:
            raise ScanError('no item keyword after %d: %r' % (i, src[i:i + 40]))
        # only visibility / qualifiers may precede the keyword
        pre = m[i:km.start()]
        if re.sub(r'pub(\s*\([^)]*\))?|unsafe|async|default|uninterp|open|closed|spec|proof|axiom|broadcast|exec|tracked|\s', '', pre):
            raise ScanError('unexpected tokens before item keyword: %r' % pre)
        it.kind = km.group(1)
        j = km.end()
        if it.kind in ('use', 'type', 'const', 'static', 'assume_specification'):
            # ends at first ';' at bracket depth 0
            depth = 0
            while j < hi:
                c = m[j]
                if c in OPEN:
                    depth += 1
                elif c in CLOSE:
                    depth -= 1
                elif c == ';' and depth == 0:
                    break
                j += 1
            it.hdr_end = j
            it.body_lo = it.body_hi = -1
            it.end = j + 1
        else:
            depth = 0
            while j < hi:
                c = m[j]
                if c in '([':
                    depth += 1
                elif c in ')]':
                    depth -= 1
                elif c == '{' and depth == 0:
                    if it.kind == 'fn':
                        # a brace group followed by a clause continuation belongs to the contract, not the body
                        k = match_close(m, j)
                        nx = skip_ws(m, k + 1, hi)
                        if nx < hi and _CONT.match(m, nx):
                            j = k + 1
                            continue
                    break
                elif c == ';' and depth == 0:
                    break
                j += 1
            if j >= hi:
                raise ScanError('item without end at %d' % i)
            it.hdr_end = j
            if m[j] == '{':
                k = match_close(m, j)
                it.body_lo, it.body_hi = j + 1, k
                it.end = k + 1
                # tuple-struct / macro invocations may have trailing ';' -- not used in ta-rs
            else:
                it.body_lo = it.body_hi = -1
                it.end = j + 1
        it.header = ' '.join(src[it.attr_end:it.hdr_end].split())
        it.name = item_name(it)
        items.append(it)
        i = skip_ws(m, it.end, hi)
    return items


def strip_generics(s):
    """remove a leading <...> (balanced angle brackets, '->' aware) from s"""
    s = s.lstrip()
    if not s.startswith('<'):
        return s
    depth = 0
    for k, c in enumerate(s):
        if c == '<':
            depth += 1
        elif c == '>' and s[k - 1] != '-':
            depth -= 1
            if depth == 0:
                return s[k + 1:].lstrip()
    raise ScanError('unbalanced generics: ' + s)


def item_name(it):
    h = it.header
    if it.kind == 'impl':
        rest = strip_generics(h[h.index('impl') + 4:])
        rest = re.sub(r'\s+where\s.*$', '', rest)
        return ' '.join(rest.split())
    if it.kind == 'use':
        return h
    mm = re.search(r'\b' + it.kind + r'\b\s*!?\s*([A-Za-z_][A-Za-z0-9_]*)', h)
    return mm.group(1) if mm else ''


def fn_ret_span(src, m, it):
    """(start, end) of the return type text in a fn item header, or None."""
    depth = 0
    j = it.attr_end
    arrow = -1
    while j < it.hdr_end:
        c = m[j]
        if c in '([':
            depth += 1
        elif c in ')]':
            depth -= 1
        elif c == '-' and m[j + 1] == '>' and depth == 0:
            arrow = j
            break
        j += 1
    if arrow < 0:
        return None
    a = skip_ws(m, arrow + 2, it.hdr_end)
    b = it.hdr_end
    w = re.search(r'\bwhere\b', m[a:b])
    if w:
        b = a + w.start()
    while b > a and m[b - 1].isspace():
        b -= 1
    return (a, b)


class Stmt:
    __slots__ = ('start', 'end', 'tail', 'kind', 'text', 'depth')

    def __repr__(self):
        return 'Stmt(%s %r tail=%s)' % (self.kind, self.text[:30], self.tail)


_BLOCKLIKE = re.compile(r'(if|match|for|while|loop|unsafe)\b|\{')


def _blocklike_end(m, i, hi):
    """m[i:] starts a block-like expression statement; return index just past it."""
    kw = _BLOCKLIKE.match(m, i).group(0)
    j = i
    while True:
        # find first '{' at paren depth 0
        depth = 0
        while j < hi:
            c = m[j]
            if c in '([':
                depth += 1
            elif c in ')]':
                depth -= 1
            elif c == '{' and depth == 0:
                break
            j += 1
        k = match_close(m, j)
        j = k + 1
        if kw.startswith('if'):
            p = skip_ws(m, j, hi)
            if re.match(r'else\b', m[p:hi]):
                p = skip_ws(m, p + 4, hi)
                j = p
                if re.match(r'if\b', m[p:hi]):
                    continue
                continue  # plain else block: loop once more to match its '{'
        return j


def split_stmts(src, m, lo, hi, depth=0, out=None, loops=None):
    """Statements of the block m[lo:hi] (exclusive of braces), recursively (nested blocks too).
    Returns (stmts, loops). loops = list of (keyword_pos, header_end(= position of '{'), body_close)
    in source order."""
    if out is None:
        out = []
    if loops is None:
        loops = []
    i = skip_ws(m, lo, hi)
    mine = []
    while i < hi:
        st = Stmt()
        st.start = i
        st.depth = depth
        bl = _BLOCKLIKE.match(m, i)
        if bl and not re.match(r'let\b', m[i:]):
            st.kind = 'block'
            j = _blocklike_end(m, i, hi)
            p = skip_ws(m, j, hi)
            if p < hi and m[p] == ';':
                j = p + 1
            st.end = j
        else:
            st.kind = 'let' if re.match(r'let\b', m[i:]) else 'expr'
            d = 0
            j = i
            while j < hi:
                c = m[j]
                if c in OPEN:
                    d += 1
                elif c in CLOSE:
                    d -= 1
                elif c == ';' and d == 0:
                    break
                j += 1
            st.end = min(j + 1, hi) if j < hi else hi
            # trim trailing whitespace for tail expressions
            if j >= hi:
                while st.end > st.start and m[st.end - 1].isspace():
                    st.end -= 1
        st.text = ' '.join(src[st.start:st.end].split())
        nxt = skip_ws(m, st.end, hi)
        st.tail = (nxt >= hi) and (m[st.end - 1] != ';')
        mine.append(st)
        i = nxt
    for st in mine:
        out.append(st)
        if st.kind == 'block':
            lm = re.match(r'(for|while|loop)\b', m[st.start:st.end])
            if lm:
                d = 0
                p = st.start + lm.end()
                while p < st.end:
                    if m[p] in '([':
                        d += 1
                    elif m[p] in ')]':
                        d -= 1
                    elif m[p] == '{' and d == 0:
                        break
                    p += 1
                loops.append((st.start, p, match_close(m, p)))
        # loops + nested blocks inside this statement
        j = st.start
        while j < st.end:
            c = m[j]
            if c == '{':
                k = match_close(m, j)
                split_stmts(src, m, j + 1, k, depth + 1, out, loops)
                j = k + 1
            else:
                j += 1
    loops.sort()
    return out, loops
