
// @harness vk_ss_display props=C11 kind=bounded(concrete-parameters) tier=thorough
// Display renders NAME(params): SLOW_STOCH(10, 2) (concrete parameters only)
#[kani::proof]
#[kani::unwind(40)]
fn vk_ss_display() {
    let ind = SlowStochastic::new(10, 2).unwrap();
    let s = format!("{}", ind);
    assert!(s == "SLOW_STOCH(10, 2)");
}
