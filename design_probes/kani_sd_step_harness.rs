#[cfg(kani)]
mod verif_kani {
    use super::*;
    fn bounded() -> f64 { let x: f64 = kani::any(); kani::assume(x.is_finite() && x.abs() <= 1e12); x }
    #[kani::proof]
    fn sd_step_nonneg() {
        let period: usize = 2;
        let index: usize = kani::any(); kani::assume(index < period);
        let count: usize = kani::any(); kani::assume(count <= period);
        let m = bounded();
        let m2: f64 = kani::any(); kani::assume(m2 >= 0.0 && m2 <= 1e30);
        let mut sd = StandardDeviation { period, index, count, m, m2, deque: vec![bounded(), bounded()].into_boxed_slice() };
        let out = sd.next(bounded());
        assert!(!out.is_nan());
        assert!(out >= 0.0);
        assert!(sd.m2 >= 0.0);
    }
}
