verus! {
pub trait Close {
    spec fn close_spec(&self) -> f64;
    fn close(&self) -> (r: f64) ensures r == self.close_spec();
}
pub trait Next<T> {
    type Output;
    spec fn next_req(&self, input: T) -> bool;
    spec fn next_ens(&self, post: &Self, input: T, out: Self::Output) -> bool;
    fn next(&mut self, input: T) -> (out: Self::Output)
        requires old(self).next_req(input),
        ensures old(self).next_ens(final(self), input, out);
}

pub struct Sma { period: usize, index: usize, count: usize, sum: f64, deque: Box<[f64]> }

impl Sma {
    pub closed spec fn wf(&self) -> bool {
        &&& ring_ok(self.deque@, self.index as int, self.count as int)
        &&& self.deque@.len() == self.period
        &&& fin(self.sum)
        &&& all_fin(self.deque@)
        &&& (self.count < self.period ==> forall|i: int| self.count <= i < self.period ==> rv(#[trigger] self.deque@[i]) == 0real)
        &&& rv(self.sum) == seq_sum(self.win())
    }
    pub closed spec fn win(&self) -> Seq<f64> { ring_win(self.deque@, self.index as int, self.count as int) }
    pub closed spec fn per(&self) -> int { self.period as int }
}
impl Next<f64> for Sma {
    type Output = f64;
    open spec fn next_req(&self, input: f64) -> bool { self.wf() && fin(input) }
    open spec fn next_ens(&self, post: &Self, input: f64, out: f64) -> bool { 
        &&& post.wf() && post.per() == self.per() 
        &&& post.win() == push_trunc(self.win(), input, self.per())
        &&& fin(out) && rv(out) == seq_sum(post.win()) / (post.win().len() as real)
    }
    fn next(&mut self, input: f64) -> Self::Output {
        broadcast use f64_axioms;
        proof { lemma_ring_step(self.deque@, self.index as int, self.count as int, input); 
                if self.count == self.period { lemma_sum_drop_first(self.win()); lemma_sum_push(self.win().subrange(1, self.win().len() as int), input); }
                else { lemma_sum_push(self.win(), input); }
        }
        let old_val = self.deque[self.index];
        self.deque[self.index] = input;

        self.index = if self.index + 1 < self.period {
            self.index + 1
        } else {
            0
        };

        if self.count < self.period {
            self.count += 1;
        }

        self.sum = self.sum - old_val + input;
        proof {
            assert(self.win() =~= push_trunc(old(self).win(), input, old(self).per()));
            assert(old(self).count == old(self).period ==> old_val == old(self).win()[0]);
            assert(old(self).count < old(self).period ==> rv(old_val) == 0real);
            assert(rv(self.sum) == seq_sum(self.win()));
            assert(all_fin(self.deque@));
            assert(self.wf());
        }
        self.sum / (usize_as_f64(self.count))
    }
}
}
fn main() {}
