
// @harness vk_obv_display props=C11 kind=bounded(concrete-parameters) tier=thorough
// Display renders NAME(params): OBV (concrete parameters only)
#[kani::proof]
#[kani::unwind(40)]
fn vk_obv_display() {
    let ind = OnBalanceVolume::new();
    let s = format!("{}", ind);
    assert!(s == "OBV");
}
