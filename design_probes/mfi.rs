verus! {
pub uninterp spec fn sign_pos_spec(x: f64) -> bool;
pub assume_specification [f64::is_sign_positive] (x: f64) -> (r: bool) ensures r == sign_pos_spec(x);
pub broadcast axiom fn ax_sign_pos(x: f64) ensures fin(x) ==> ((#[trigger] sign_pos_spec(x)) ==> rv(x) >= 0real) && (!sign_pos_spec(x) ==> rv(x) <= 0real);
pub uninterp spec fn neg_spec(x: f64) -> f64;
#[verifier::external_body]
pub fn f64_neg(x: f64) -> (r: f64) ensures r == neg_spec(x) { -x }
pub broadcast axiom fn ax_neg(x: f64) ensures fin(x) ==> fin(#[trigger] neg_spec(x)) && rv(neg_spec(x)) == 0real - rv(x);

pub trait Close { spec fn close_spec(&self) -> f64; fn close(&self) -> (r: f64) ensures r == self.close_spec(); }
pub trait High { spec fn high_spec(&self) -> f64; fn high(&self) -> (r: f64) ensures r == self.high_spec(); }
pub trait Low { spec fn low_spec(&self) -> f64; fn low(&self) -> (r: f64) ensures r == self.low_spec(); }
pub trait Volume { spec fn volume_spec(&self) -> f64; fn volume(&self) -> (r: f64) ensures r == self.volume_spec(); }
pub trait Next<T> {
    type Output;
    spec fn next_req(&self, input: T) -> bool;
    spec fn next_ens(&self, post: &Self, input: T, out: Self::Output) -> bool;
    fn next(&mut self, input: T) -> (out: Self::Output)
        requires old(self).next_req(input),
        ensures old(self).next_ens(final(self), input, out);
}
pub open spec fn rmax0(x: real) -> real { if x >= 0real { x } else { 0real } }
pub open spec fn seq_pos(s: Seq<f64>) -> real decreases s.len() { if s.len() == 0 { 0real } else { seq_pos(s.drop_last()) + rmax0(rv(s.last())) } }
pub open spec fn seq_neg(s: Seq<f64>) -> real decreases s.len() { if s.len() == 0 { 0real } else { seq_neg(s.drop_last()) + rmax0(0real - rv(s.last())) } }
pub proof fn lemma_pos_push(s: Seq<f64>, x: f64) ensures seq_pos(s.push(x)) == seq_pos(s) + rmax0(rv(x)), seq_neg(s.push(x)) == seq_neg(s) + rmax0(0real - rv(x))
{ assert(s.push(x).drop_last() =~= s); }
pub proof fn lemma_pos_drop_first(s: Seq<f64>)
    requires s.len() >= 1
    ensures seq_pos(s.subrange(1, s.len() as int)) == seq_pos(s) - rmax0(rv(s[0])), seq_neg(s.subrange(1, s.len() as int)) == seq_neg(s) - rmax0(0real - rv(s[0]))
    decreases s.len()
{
    if s.len() == 1 {
        assert(s.drop_last() =~= Seq::<f64>::empty());
        assert(s.subrange(1, 1) =~= Seq::<f64>::empty());
        assert(seq_pos(s.drop_last()) == 0real); assert(seq_neg(s.drop_last()) == 0real); assert(s.last() == s[0]);
    } else {
        lemma_pos_drop_first(s.drop_last());
        assert(s.subrange(1, s.len() as int).drop_last() =~= s.drop_last().subrange(1, s.len() - 1));
    }
}
pub proof fn lemma_pos_nonneg(s: Seq<f64>) ensures seq_pos(s) >= 0real, seq_neg(s) >= 0real decreases s.len()
{ if s.len() > 0 { lemma_pos_nonneg(s.drop_last()); } }

// MFI ring: cursor = last written slot; slot of the first bar is never written and counts as flow 0
pub open spec fn mfi_ok(d: Seq<f64>, index: int, count: int) -> bool {
    &&& d.len() >= 1 && 0 <= index < d.len() && 0 <= count <= d.len()
    &&& (count < d.len() ==> index == count)
}
pub open spec fn mfi_win(d: Seq<f64>, index: int, count: int) -> Seq<f64> {
    let w = next_index(index, d.len() as int);
    if count < d.len() { d.subrange(1, count + 1) } else { d.subrange(w, d.len() as int) + d.subrange(0, w) }
}
// signed flow of one bar
pub open spec fn flow(prev_tp: real, tp: real, vol: real) -> real { if tp > prev_tp { tp * vol } else if tp < prev_tp { 0real - tp * vol } else { 0real } }

pub struct Mfi { period: usize, index: usize, count: usize, previous_typical_price: f64, total_positive_money_flow: f64, total_negative_money_flow: f64, deque: Box<[f64]> }
impl Mfi {
    pub closed spec fn flows(&self) -> Seq<f64> { mfi_win(self.deque@, self.index as int, self.count as int) }
    pub closed spec fn per(&self) -> int { self.period as int }
    pub closed spec fn seen(&self) -> int { self.count as int }
    pub closed spec fn prev_tp(&self) -> real { rv(self.previous_typical_price) }
    pub closed spec fn shape_ok(&self) -> bool { mfi_ok(self.deque@, self.index as int, self.count as int) && self.deque@.len() == self.period }
    pub closed spec fn num_ok(&self) -> bool {
        &&& all_fin(self.deque@) && fin(self.previous_typical_price) && fin(self.total_positive_money_flow) && fin(self.total_negative_money_flow)
        &&& (self.count < self.period ==> forall|i: int| self.count < i < self.period ==> rv(#[trigger] self.deque@[i]) == 0real)
        &&& (0 < self.count < self.period ==> rv(self.deque@[1]) == 0real)
        &&& (self.count == 0 ==> forall|i: int| 0 <= i < self.period ==> rv(#[trigger] self.deque@[i]) == 0real)
        &&& rv(self.total_positive_money_flow) == seq_pos(self.flows())
        &&& rv(self.total_negative_money_flow) == seq_neg(self.flows())
    }
    pub open spec fn tp_of<T: High + Low + Close>(b: &T) -> real { (rv(b.close_spec()) + rv(b.high_spec()) + rv(b.low_spec())) / 3real }
}
impl<T: High + Low + Close + Volume> Next<&T> for Mfi {
    type Output = f64;
    open spec fn next_req(&self, bar: &T) -> bool { self.shape_ok() }
    open spec fn next_ens(&self, post: &Self, bar: &T, out: f64) -> bool { 
        &&& post.shape_ok() && post.per() == self.per()
        &&& self.num_ok() && fin(bar.close_spec()) && fin(bar.high_spec()) && fin(bar.low_spec()) && fin(bar.volume_spec()) 
              && Mfi::tp_of(bar) >= 0real && rv(bar.volume_spec()) >= 0real ==> {
            let tp = Mfi::tp_of(bar);
            &&& post.num_ok() && post.prev_tp() == tp
            &&& self.seen() == 0 ==> out == 50.0f64 && rv(post.flows()[0]) == 0real && post.flows().len() == 1
            &&& self.seen() > 0 ==> {
                 &&& post.flows().len() == (if self.flows().len() < self.per() { self.flows().len() + 1 } else { self.per() as nat })
                 &&& rv(post.flows().last()) == flow(self.prev_tp(), tp, rv(bar.volume_spec()))
                 &&& post.flows().drop_last() == (if self.flows().len() < self.per() { self.flows() } else { self.flows().subrange(1, self.per()) })
                 &&& seq_pos(post.flows()) + seq_neg(post.flows()) != 0real ==> 
                       fin(out) && rv(out) == seq_pos(post.flows()) / (seq_pos(post.flows()) + seq_neg(post.flows())) * 100real
               }
        }
    }
    fn next(&mut self, input: &T) -> f64 {
        broadcast use f64_axioms; broadcast use ax_neg; broadcast use ax_sign_pos;
        proof { ax_lit_0(); ax_lit_3(); ax_lit_50(); ax_lit_100(); }
        let ghost good = self.num_ok() && fin(input.close_spec()) && fin(input.high_spec()) && fin(input.low_spec()) && fin(input.volume_spec())
              && Mfi::tp_of(input) >= 0real && rv(input.volume_spec()) >= 0real;
        let tp = (input.close() + input.high() + input.low()) / 3.0;

        self.index = if self.index + 1 < self.period {
            self.index + 1
        } else {
            0
        };

        if self.count < self.period {
            self.count = self.count + 1;
            if self.count == 1 {
                self.previous_typical_price = tp;
                proof { if good { 
                    assert(self.flows().len() == 1 && rv(self.flows()[0]) == 0real);
                    assert(seq_pos(Seq::<f64>::empty()) == 0real);
                    lemma_pos_push(Seq::<f64>::empty(), self.flows()[0]);
                    assert(Seq::<f64>::empty().push(self.flows()[0]) =~= self.flows());
                } }
                return 50.0;
            }
        } else {
            let popped = self.deque[self.index];
            proof { if good { assert(popped == old(self).flows()[0]); lemma_pos_drop_first(old(self).flows()); } }
            if popped.is_sign_positive() {
                self.total_positive_money_flow = self.total_positive_money_flow - (popped);
            } else {
                self.total_negative_money_flow = self.total_negative_money_flow + (popped);
            }
        }
        let ghost base = if old(self).count < old(self).period { old(self).flows() } else { old(self).flows().subrange(1, old(self).period as int) };
        proof { if good {
            assert(rv(self.total_positive_money_flow) == seq_pos(base));
            assert(rv(self.total_negative_money_flow) == seq_neg(base));
        } }

        if tp > self.previous_typical_price {
            let raw_money_flow = tp * input.volume();
            proof { if good { alg_prod_nonneg(rv(tp), rv(input.volume_spec())); } }
            self.total_positive_money_flow = self.total_positive_money_flow + (raw_money_flow);
            self.deque[self.index] = raw_money_flow;
        } else if tp < self.previous_typical_price {
            let raw_money_flow = tp * input.volume();
            proof { if good { alg_prod_nonneg(rv(tp), rv(input.volume_spec())); } }
            self.total_negative_money_flow = self.total_negative_money_flow + (raw_money_flow);
            self.deque[self.index] = f64_neg(raw_money_flow);
        } else {
            self.deque[self.index] = 0.0;
        }
        self.previous_typical_price = tp;
        proof { if good {
            let f = self.deque@[self.index as int];
            assert(self.flows() =~= base.push(f));
            lemma_pos_push(base, f);
            lemma_pos_nonneg(self.flows());
            assert(self.flows().drop_last() =~= base);
        } }

        self.total_positive_money_flow
            / (self.total_positive_money_flow + self.total_negative_money_flow)
            * 100.0
    }
}
pub proof fn alg_prod_nonneg(a: real, b: real) requires a >= 0real, b >= 0real ensures a * b >= 0real
{ assert(a * b >= 0real) by(nonlinear_arith) requires a >= 0real, b >= 0real; }
}
fn main() {}
