use super::{Close, High, Low, Open, Volume};

#[derive(Debug, PartialEq)]
pub struct Bar {
    open: f64,
    high: f64,
    low: f64,
    close: f64,
    volume: f64,
}

impl Bar {
    pub fn new() -> Self {
        Self {
            open: 0.0,
            close: 0.0,
            low: 0.0,
            high: 0.0,
            volume: 0.0,
        }
    }

    //pub fn open<T: Into<f64>>(mut self, val :T ) -> Self {
    //    self.open = val.into();
    //    self
    //}

    pub fn high<T: Into<f64>>(mut self, val: T) -> Self {
        self.high = val.into();
        self
    }

    pub fn low<T: Into<f64>>(mut self, val: T) -> Self {
        self.low = val.into();
        self
    }

    pub fn close<T: Into<f64>>(mut self, val: T) -> Self {
        self.close = val.into();
        self
    }

    pub fn volume(mut self, val: f64) -> Self {
        self.volume = val;
        self
    }
}

impl Open for Bar {
    fn open(&self) -> f64 {
        self.open
    }
}

impl Close for Bar {
    fn close(&self) -> f64 {
        self.close
    }
}

impl Low for Bar {
    fn low(&self) -> f64 {
        self.low
    }
}

impl High for Bar {
    fn high(&self) -> f64 {
        self.high
    }
}

impl Volume for Bar {
    fn volume(&self) -> f64 {
        self.volume
    }
}

pub fn round(num: f64) -> f64 {
    (num * 1000.0).round() / 1000.00
}

macro_rules! test_indicator {
    ($i:tt) => {
        #[test]
        fn test_indicator() {
            let bar = Bar::new();

            // ensure Default trait is implemented
            let mut indicator = $i::default();

            // ensure Next<f64> is implemented
            let first_output = indicator.next(12.3);

            // ensure next accepts &DataItem as well
            indicator.next(&bar);

            // ensure Reset is implemented and works correctly
            indicator.reset();
            assert_eq!(indicator.next(12.3), first_output);

            // ensure Display is implemented
            format!("{}", indicator);
        }
    };
}
