fn vk_small2() -> f64 { let v: i8 = kani::any(); kani::assume(v >= -4 && v <= 4); v as f64 }
// EMA(n) over hist[0..=t], from scratch: first value, then alpha*x + (1-alpha)*prev with alpha = 2/(n+1)
fn vk_ref_ema(hist: &[f64], t: usize, n: usize) -> f64 {
    let alpha = 2.0 / (n as f64 + 1.0);
    let mut e = hist[0];
    let mut j = 1;
    while j <= t { e = alpha * hist[j] + (1.0 - alpha) * e; j += 1; }
    e
}

// ATR(n) on scalars = EMA(n) of |x_t - x_{t-1}| (0 for the first input)
fn vk_atr_matches_reference<const P: usize, const K: usize>() {
    let mut ind = AverageTrueRange::new(P).unwrap();
    let mut trs = [0.0f64; K];
    let mut prev = 0.0;
    let mut t = 0;
    while t < K {
        let x = vk_small2();
        trs[t] = if t == 0 { 0.0 } else { (x - prev).abs() };
        prev = x;
        let out = ind.next(x);
        assert!(out == vk_ref_ema(&trs, t, P));
        assert!(out >= 0.0);
        t += 1;
    }
}
// @harness vk_atr_matches_reference_p3 props=C02,C09,C15 kind=bounded(period=3,steps=4) tier=quick
#[kani::proof] #[kani::unwind(7)] fn vk_atr_matches_reference_p3() { vk_atr_matches_reference::<3, 4>() }
