use std::fmt;

use crate::errors::Result;
use crate::indicators::{ExponentialMovingAverage, FastStochastic};
use crate::{Close, High, Low, Next, Period, Reset};
#[cfg(feature = "serde")]
use serde::{Deserialize, Serialize};

/// Slow stochastic oscillator.
///
/// Basically it is a fast stochastic oscillator smoothed with exponential moving average.
///
/// # Parameters
///
/// * _stochastic_period_ - number of periods for fast stochastic (integer greater than 0). Default is 14.
/// * _ema_period_ - period for EMA (integer greater than 0). Default is 3.
///
/// # Example
///
/// ```
/// use ta::indicators::SlowStochastic;
/// use ta::Next;
///
/// let mut stoch = SlowStochastic::new(3, 2).unwrap();
/// assert_eq!(stoch.next(10.0), 50.0);
/// assert_eq!(stoch.next(50.0).round(), 83.0);
/// assert_eq!(stoch.next(50.0).round(), 94.0);
/// assert_eq!(stoch.next(30.0).round(), 31.0);
/// assert_eq!(stoch.next(55.0).round(), 77.0);
/// ```
#[cfg_attr(feature = "serde", derive(Serialize, Deserialize))]
#[derive(Clone, Debug)]
pub struct SlowStochastic {
    fast_stochastic: FastStochastic,
    ema: ExponentialMovingAverage,
}

impl SlowStochastic {
    pub fn new(stochastic_period: usize, ema_period: usize) -> Result<Self> {
        Ok(Self {
            fast_stochastic: FastStochastic::new(stochastic_period)?,
            ema: ExponentialMovingAverage::new(ema_period)?,
        })
    }
}

impl Next<f64> for SlowStochastic {
    type Output = f64;

    fn next(&mut self, input: f64) -> Self::Output {
        self.ema.next(self.fast_stochastic.next(input))
    }
}

impl<T: High + Low + Close> Next<&T> for SlowStochastic {
    type Output = f64;

    fn next(&mut self, input: &T) -> Self::Output {
        self.ema.next(self.fast_stochastic.next(input))
    }
}

impl Reset for SlowStochastic {
    fn reset(&mut self) {
        self.fast_stochastic.reset();
        self.ema.reset();
    }
}

impl Default for SlowStochastic {
    fn default() -> Self {
        Self::new(14, 3).unwrap()
    }
}

impl fmt::Display for SlowStochastic {
    fn fmt(&self, f: &mut fmt::Formatter) -> fmt::Result {
        write!(
            f,
            "SLOW_STOCH({}, {})",
            self.fast_stochastic.period(),
            self.ema.period()
        )
    }
}

#[cfg(test)]
mod tests {
    use super::*;
    use crate::test_helper::*;

    test_indicator!(SlowStochastic);

    #[test]
    fn test_new() {
        assert!(SlowStochastic::new(0, 1).is_err());
        assert!(SlowStochastic::new(1, 0).is_err());
        assert!(SlowStochastic::new(1, 1).is_ok());
    }

    #[test]
    fn test_next_with_f64() {
        let mut stoch = SlowStochastic::new(3, 2).unwrap();
        assert_eq!(stoch.next(10.0), 50.0);
        assert_eq!(stoch.next(50.0).round(), 83.0);
        assert_eq!(stoch.next(50.0).round(), 94.0);
        assert_eq!(stoch.next(30.0).round(), 31.0);
        assert_eq!(stoch.next(55.0).round(), 77.0);
    }

    #[test]
    fn test_next_with_bars() {
        let test_data = vec![
            // high, low , close, expected
            (30.0, 10.0, 25.0, 75.0),
            (20.0, 20.0, 20.0, 58.0),
            (40.0, 20.0, 16.0, 33.0),
            (35.0, 15.0, 19.0, 22.0),
            (30.0, 20.0, 25.0, 34.0),
            (35.0, 25.0, 30.0, 61.0),
        ];

        let mut stoch = SlowStochastic::new(3, 2).unwrap();

        for (high, low, close, expected) in test_data {
            let input_bar = Bar::new().high(high).low(low).close(close);
            assert_eq!(stoch.next(&input_bar).round(), expected);
        }
    }

    #[test]
    fn test_reset() {
        let mut stoch = SlowStochastic::new(3, 2).unwrap();
        assert_eq!(stoch.next(10.0), 50.0);
        assert_eq!(stoch.next(50.0).round(), 83.0);
        assert_eq!(stoch.next(50.0).round(), 94.0);

        stoch.reset();
        assert_eq!(stoch.next(10.0), 50.0);
    }

    #[test]
    fn test_default() {
        SlowStochastic::default();
    }

    #[test]
    fn test_display() {
        let indicator = SlowStochastic::new(10, 2).unwrap();
        assert_eq!(format!("{}", indicator), "SLOW_STOCH(10, 2)");
    }
}
