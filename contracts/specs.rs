// specs.rs -- woven into `pub mod vp` after prelude.rs.  NO trusted items here: only spec functions
// (the mathematical definitions the properties talk about) and proved lemmas.

// ---- from simple_moving_average.vspec
pub open spec fn seq_mean(w: Seq<f64>) -> real { seq_sum(w) / (w.len() as real) }

// ---- from exponential_moving_average.vspec
pub open spec fn ema_step(fresh: bool, cur: real, alpha: real, x: real) -> real {
    if fresh { x } else { alpha * x + (1real - alpha) * cur }
}
pub proof fn lemma_ema_convex(a: real, x: real, c: real, lo: real, hi: real)
    requires 0real <= a <= 1real, lo <= x <= hi, lo <= c <= hi
    ensures lo <= a * x + (1real - a) * c <= hi //#lemma
{
    assert(a * (x - lo) >= 0real) by(nonlinear_arith) requires a >= 0real, x - lo >= 0real;
    assert((1real - a) * (c - lo) >= 0real) by(nonlinear_arith) requires 1real - a >= 0real, c - lo >= 0real;
    assert(a * (hi - x) >= 0real) by(nonlinear_arith) requires a >= 0real, hi - x >= 0real;
    assert((1real - a) * (hi - c) >= 0real) by(nonlinear_arith) requires 1real - a >= 0real, hi - c >= 0real;
    assert(a * (x - lo) == a * x - a * lo) by(nonlinear_arith);
    assert((1real - a) * (c - lo) == c - lo - a * c + a * lo) by(nonlinear_arith);
    assert(a * (hi - x) == a * hi - a * x) by(nonlinear_arith);
    assert((1real - a) * (hi - c) == hi - c - a * hi + a * c) by(nonlinear_arith);
    assert((1real - a) * c == c - a * c) by(nonlinear_arith);
}

// ---- from exponential_moving_average.vspec
pub open spec fn ema_bound(v: real, lo: real, hi: real) -> real { v }

// ---- from true_range.vspec
pub open spec fn tr_scalar(prev: Option<f64>, x: real) -> real {
    match prev { Some(p) => rabs(x - rv(p)), None => 0real }
}
pub open spec fn tr_bar(prev: Option<f64>, h: real, l: real) -> real {
    match prev { Some(p) => rmax(rmax(h - l, rabs(h - rv(p))), rabs(l - rv(p))), None => h - l }
}

