use vstd::prelude::*;
verus! {
// warm-up Welford step, hypothesis-free in (c, m0, m1)
pub proof fn alg_welford_grow(c: real, m0: real, m1: real)
   ensures ({ let x = (c+1real)*m1 - c*m0; 
       (0real - c*m0*m0) + (x - m0)*(x - m1) == x*x - (c+1real)*m1*m1 })
{ 
  assert((0real - c*m0*m0) + (((c+1real)*m1 - c*m0) - m0)*(((c+1real)*m1 - c*m0) - m1) == ((c+1real)*m1 - c*m0)*((c+1real)*m1 - c*m0) - (c+1real)*m1*m1) by(nonlinear_arith);
}
// sliding step, hypothesis-free in (n, m0, m1, o); x = o + n*m1 - n*m0
pub proof fn alg_welford_slide(n: real, m0: real, m1: real, o: real)
   ensures ({ let x = o + n*m1 - n*m0;
       (0real - n*m0*m0) + (x - o)*(x - m1 + o - m0) == (x*x - o*o) - n*m1*m1 })
{
  assert((0real - n*m0*m0) + ((o + n*m1 - n*m0) - o)*((o + n*m1 - n*m0) - m1 + o - m0) == ((o + n*m1 - n*m0)*(o + n*m1 - n*m0) - o*o) - n*m1*m1) by(nonlinear_arith);
}
pub proof fn alg_div_cancel(a: real, b: real)
   requires b != 0real
   ensures (a / b) * b == a
{ assert((a / b) * b == a) by(nonlinear_arith) requires b != 0real; }
pub proof fn alg_mean_update(m0: real, d: real, c: real) 
   requires c != 0real
   ensures (m0 + d / c) * c == m0 * c + d
{ assert((m0 + d / c) * c == m0 * c + d) by(nonlinear_arith) requires c != 0real; }
// sqdev expansion specialised at the mean: Q - 2 mu (mu c) + c mu mu == Q - c mu mu
pub proof fn alg_sqdev_at_mean(q: real, mu: real, c: real)
   ensures q - 2real * mu * (mu * c) + c * mu * mu == q - c * mu * mu
{ assert(q - 2real * mu * (mu * c) + c * mu * mu == q - c * mu * mu) by(nonlinear_arith); }
}
fn main(){}
