"""Kani lane (filled in below)."""
PROP_HARNESSES = {}


def lane(pid, tier, cov, ledger, findings, assumptions):
    return {'violations': [], 'undecided': [], 'known': []}


def replay(p):
    return 0
