verus! {
pub uninterp spec fn abs_spec(x: f64) -> f64;
pub assume_specification [f64::abs] (x: f64) -> (r: f64) ensures r == abs_spec(x);
pub open spec fn rabs(x: real) -> real { if x >= 0real { x } else { 0real - x } }
pub broadcast axiom fn ax_abs(x: f64) ensures fin(x) ==> fin(#[trigger] abs_spec(x)) && rv(abs_spec(x)) == rabs(rv(x));

pub trait Next<T> {
    type Output;
    spec fn next_req(&self, input: T) -> bool;
    spec fn next_ens(&self, post: &Self, input: T, out: Self::Output) -> bool;
    fn next(&mut self, input: T) -> (out: Self::Output)
        requires old(self).next_req(input),
        ensures old(self).next_ens(final(self), input, out);
}
pub open spec fn seq_absdev(s: Seq<f64>, mu: real) -> real decreases s.len() {
    if s.len() == 0 { 0real } else { seq_absdev(s.drop_last(), mu) + rabs(rv(s.last()) - mu) }
}
// absdev is invariant under rotation: absdev(a + b) == absdev(b + a); we only need: absdev over raw buffer prefix equals absdev over chronological window
pub proof fn lemma_absdev_concat(a: Seq<f64>, b: Seq<f64>, mu: real)
    ensures seq_absdev(a + b, mu) == seq_absdev(a, mu) + seq_absdev(b, mu)
    decreases b.len()
{
    if b.len() == 0 { assert(a + b =~= a); } else {
        assert((a + b).drop_last() =~= a + b.drop_last());
        assert((a + b).last() == b.last());
        lemma_absdev_concat(a, b.drop_last(), mu);
    }
}
pub struct Mad { period: usize, index: usize, count: usize, sum: f64, deque: Box<[f64]> }
impl Mad {
    pub closed spec fn win(&self) -> Seq<f64> { ring_win(self.deque@, self.index as int, self.count as int) }
    pub closed spec fn per(&self) -> int { self.period as int }
    pub closed spec fn shape_ok(&self) -> bool { ring_ok(self.deque@, self.index as int, self.count as int) && self.deque@.len() == self.period }
    pub closed spec fn num_ok(&self) -> bool {
        &&& fin(self.sum) && all_fin(self.deque@)
        &&& rv(self.sum) == seq_sum(self.win())
    }
}
impl Next<f64> for Mad {
    type Output = f64;
    open spec fn next_req(&self, input: f64) -> bool { self.shape_ok() }
    open spec fn next_ens(&self, post: &Self, input: f64, out: f64) -> bool { 
        &&& post.shape_ok() && post.per() == self.per() 
        &&& self.num_ok() && fin(input) ==> {
            &&& post.num_ok()
            &&& post.win() == push_trunc(self.win(), input, self.per())
            &&& fin(out) 
            &&& exists|mean: real| mean * (post.win().len() as real) == seq_sum(post.win()) && rv(out) * (post.win().len() as real) == seq_absdev(post.win(), mean)
        }
    }
    fn next(&mut self, input: f64) -> Self::Output {
        broadcast use f64_axioms; broadcast use ax_abs;
        proof { lemma_ring_step(self.deque@, self.index as int, self.count as int, input); ax_lit_0();
            if self.num_ok() && fin(input) {
                if self.count == self.period { 
                    lemma_sum_drop_first(self.win()); lemma_sum_push(self.win().subrange(1, self.win().len() as int), input);
                } else { lemma_sum_push(self.win(), input); }
            }
        }
        self.sum = if self.count < self.period {
            self.count = self.count + 1;
            self.sum + input
        } else {
            self.sum + input - self.deque[self.index]
        };

        self.deque[self.index] = input;
        self.index = if self.index + 1 < self.period {
            self.index + 1
        } else {
            0
        };

        let mean = self.sum / usize_as_f64(self.count);
        let ghost good = old(self).num_ok() && fin(input);
        proof {
            if good {
                assert(self.win() =~= push_trunc(old(self).win(), input, old(self).per()));
                assert(old(self).count == old(self).period ==> old(self).deque@[old(self).index as int] == old(self).win()[0]);
                assert(rv(self.sum) == seq_sum(self.win()));
                alg_div_cancel(rv(self.sum), self.count as real);
            }
        }

        let mut mad = 0.0;
        for value in it: &self.deque[..self.count] 
            invariant self.shape_ok(), self.count <= self.deque@.len(), it.index@ <= self.count,
                good ==> all_fin(self.deque@) && fin(mean) && fin(mad) && rv(mad) == seq_absdev(self.deque@.subrange(0, it.index@ as int), rv(mean)),
        {
            broadcast use f64_axioms; broadcast use ax_abs;
            proof { assert(self.deque@.subrange(0, it.index@ + 1).drop_last() =~= self.deque@.subrange(0, it.index@ as int)); }
            mad = mad + ((value - mean).abs());
        }
        proof {
            if good {
                // raw prefix [0..count) is a rotation of the chronological window
                let d = self.deque@; let c = self.count as int; let i = self.index as int; let mu = rv(mean);
                if c < d.len() { assert(self.win() =~= d.subrange(0, c)); }
                else {
                    lemma_absdev_concat(d.subrange(i, c), d.subrange(0, i), mu);
                    lemma_absdev_concat(d.subrange(0, i), d.subrange(i, c), mu);
                    assert(d.subrange(0, i) + d.subrange(i, c) =~= d.subrange(0, c));
                }
                assert(rv(mad) == seq_absdev(self.win(), mu));
                alg_div_cancel(rv(mad), self.count as real);
                assert(mu * (self.win().len() as real) == seq_sum(self.win()));
            }
        }
        mad / usize_as_f64(self.count)
    }
}
pub proof fn alg_div_cancel(a: real, b: real)
   requires b != 0real
   ensures (a / b) * b == a
{ assert((a / b) * b == a) by(nonlinear_arith) requires b != 0real; }
}
fn main() {}
