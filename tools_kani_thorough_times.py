#!/usr/bin/env python3
import sys, os, json
sys.path.insert(0, '/verif/vlib')
import kani_lane as K
os.environ['VERIF_KANI_HTIMEOUT'] = '1500s'
t = K.harness_table()
names = [n for n, h in t.items() if h['tier'] != 'quick']
print(len(names), names, flush=True)
r = K.run_harnesses(names)
print(r['rc'], r['wall_s'])
for n, v in sorted(r['results'].items()):
    print(n, v['status'], v.get('time_s'), v.get('checks_total'), v.get('failed_checks'))
