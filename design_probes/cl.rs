verus! {
pub trait Next<T> {
    type Output;
    spec fn next_req(&self, input: T) -> bool;
    spec fn ens_shape(&self, post: &Self, input: T, out: Self::Output) -> bool;
    spec fn ens_value(&self, post: &Self, input: T, out: Self::Output) -> bool;
    spec fn ens_range(&self, post: &Self, input: T, out: Self::Output) -> bool;
    fn next(&mut self, input: T) -> (out: Self::Output)
        requires old(self).next_req(input),
        ensures 
            old(self).ens_shape(final(self), input, out),
            old(self).ens_value(final(self), input, out),
            old(self).ens_range(final(self), input, out);
}
pub mod indicators {
  use super::*;
  pub mod obv {
    use super::*;
    pub struct Obv { obv: f64, prev: f64 }
    impl Obv {
        pub closed spec fn o(&self) -> real { rv(self.obv) }
        pub closed spec fn num_ok(&self) -> bool { fin(self.obv) && fin(self.prev) }
    }
    impl Next<f64> for Obv {
        type Output = f64;
        open spec fn next_req(&self, input: f64) -> bool { true }
        open spec fn ens_shape(&self, post: &Self, input: f64, out: f64) -> bool { true }
        open spec fn ens_value(&self, post: &Self, input: f64, out: f64) -> bool { self.num_ok() && fin(input) ==> post.num_ok() && post.o() == self.o() + rv(input) && rv(out) == post.o() }
        open spec fn ens_range(&self, post: &Self, input: f64, out: f64) -> bool { self.num_ok() && fin(input) && rv(input) >= 0real && self.o() >= 0real ==> rv(out) >= 0real }
        fn next(&mut self, input: f64) -> f64 {
            broadcast use f64_axioms;
            self.obv = self.obv - input;
            self.prev = input;
            self.obv
        }
    }
  }
}
}
fn main() {}
