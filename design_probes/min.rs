verus! {
// --- extended-real order on non-NaN floats ---
pub uninterp spec fn pinf(x: f64) -> bool;
pub uninterp spec fn INF() -> f64;
pub axiom fn ax_inf() ensures pinf(INF()), !fin(INF());
// ordered(x): x is finite or +inf
pub open spec fn ordp(x: f64) -> bool { fin(x) || pinf(x) }
// lt on ordp values
pub open spec fn ltp(a: f64, b: f64) -> bool { if fin(a) && fin(b) { rv(a) < rv(b) } else { fin(a) && pinf(b) } }
pub broadcast axiom fn ax_cmp_pinf(a: f64, b: f64)
    ensures ordp(a) && ordp(b) && !(fin(a) && fin(b)) ==> (#[trigger] a.partial_cmp_spec(&b)) ==
        (if fin(a) && pinf(b) { Some(core::cmp::Ordering::Less) } else if pinf(a) && fin(b) { Some(core::cmp::Ordering::Greater) } else { Some(core::cmp::Ordering::Equal) });
pub broadcast axiom fn ax_fin_pinf_excl(a: f64) ensures !(#[trigger] fin(a) && pinf(a));
#[verifier::external_body]
pub fn f64_infinity() -> (r: f64) ensures r == INF() { f64::INFINITY }

pub trait Next<T> {
    type Output;
    spec fn next_req(&self, input: T) -> bool;
    spec fn next_ens(&self, post: &Self, input: T, out: Self::Output) -> bool;
    fn next(&mut self, input: T) -> (out: Self::Output)
        requires old(self).next_req(input),
        ensures old(self).next_ens(final(self), input, out);
}
pub open spec fn all_ordp(s: Seq<f64>) -> bool { forall|i: int| 0 <= i < s.len() ==> ordp(#[trigger] s[i]) }
pub open spec fn is_least(v: f64, s: Seq<f64>) -> bool {
    &&& exists|j: int| 0 <= j < s.len() && s[j] == v
    &&& forall|i: int| 0 <= i < s.len() ==> !ltp(#[trigger] s[i], v)
}
// chronological padded window: oldest first, starting at cursor
pub open spec fn chron(d: Seq<f64>, cur: int) -> Seq<f64> { d.subrange(cur, d.len() as int) + d.subrange(0, cur) }
pub open spec fn shift_push(w: Seq<f64>, x: f64) -> Seq<f64> { w.subrange(1, w.len() as int).push(x) }

pub struct Minimum { period: usize, min_index: usize, cur_index: usize, deque: Box<[f64]> }
impl Minimum {
    pub closed spec fn shape_ok(&self) -> bool { self.period >= 1 && self.min_index < self.period && self.cur_index < self.period && self.deque@.len() == self.period }
    pub closed spec fn num_ok(&self) -> bool { all_ordp(self.deque@) && is_least(self.deque@[self.min_index as int], self.deque@) }
    pub closed spec fn pw(&self) -> Seq<f64> { chron(self.deque@, self.cur_index as int) }
    pub closed spec fn per(&self) -> int { self.period as int }
    #[verifier::external_body]
    fn find_min_index(&self) -> (r: usize) 
        requires self.shape_ok()
        ensures r < self.period, all_ordp(self.deque@) ==> is_least(self.deque@[r as int], self.deque@)
    {
        let mut min = f64::INFINITY;
        let mut index: usize = 0;
        for (i, &val) in self.deque.iter().enumerate() {
            if val < min { min = val; index = i; }
        }
        index
    }
    pub fn reset(&mut self) 
        requires old(self).shape_ok() 
        ensures final(self).shape_ok(), final(self).num_ok(), final(self).per() == old(self).per(),
             final(self).pw() == Seq::new(old(self).per() as nat, |i: int| INF())
    {
        proof { ax_inf(); }
        for i in 0..self.period 
           invariant self.shape_ok(), self.per() == old(self).per(), self.cur_index == old(self).cur_index, self.min_index == old(self).min_index,
               forall|j: int| 0 <= j < i ==> self.deque@[j] == INF(),
        {
            self.deque[i] = f64_infinity();
        }
        proof {
            assert(self.pw() =~= Seq::new(old(self).per() as nat, |i: int| INF()));
            assert(self.deque@[self.min_index as int] == INF());
        }
    }
}
impl Next<f64> for Minimum {
    type Output = f64;
    open spec fn next_req(&self, input: f64) -> bool { self.shape_ok() }
    open spec fn next_ens(&self, post: &Self, input: f64, out: f64) -> bool { 
        &&& post.shape_ok() && post.per() == self.per()
        &&& self.num_ok() && fin(input) ==> post.num_ok() && post.pw() == shift_push(self.pw(), input) && is_least(out, post.pw())
    }
    fn next(&mut self, input: f64) -> Self::Output {
        broadcast use f64_axioms; broadcast use ax_cmp_pinf; broadcast use ax_fin_pinf_excl;
        self.deque[self.cur_index] = input;

        if input < self.deque[self.min_index] {
            self.min_index = self.cur_index;
        } else if self.min_index == self.cur_index {
            self.min_index = self.find_min_index();
        }
        proof {
            if old(self).num_ok() && fin(input) {
                assert(all_ordp(self.deque@));
                let ov = old(self).deque@[old(self).min_index as int];
                assert(forall|i: int| 0 <= i < self.deque@.len() && i != self.cur_index ==> self.deque@[i] == old(self).deque@[i]);
                assert(is_least(self.deque@[self.min_index as int], self.deque@));
            }
        }

        self.cur_index = if self.cur_index + 1 < self.period {
            self.cur_index + 1
        } else {
            0
        };
        proof {
            if old(self).num_ok() && fin(input) {
                assert(self.pw() =~= shift_push(old(self).pw(), input));
                let v = self.deque@[self.min_index as int];
                // is_least over deque ==> is_least over its rotation
                let j0 = choose|j: int| 0 <= j < self.deque@.len() && self.deque@[j] == v;
                let c = self.cur_index as int; let n = self.period as int;
                let jj = if j0 >= c { j0 - c } else { j0 + n - c };
                assert(self.pw()[jj] == v);
                assert forall|i: int| 0 <= i < self.pw().len() implies !ltp(#[trigger] self.pw()[i], v) by {
                    let k = if i < n - c { i + c } else { i - (n - c) };
                    assert(self.pw()[i] == self.deque@[k]);
                }
            }
        }
        self.deque[self.min_index]
    }
}
}
fn main() {}
