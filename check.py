#!/usr/bin/env python3
"""check.py <property id> [--tier quick|thorough]      decide one property on /repo's current working tree
   check.py --replay <replay file>                    re-run the obligation recorded in a replay file
   check.py --dev [substring]                         developer view: all failing obligations

exit 0  property held on everything explored (KNOWN-FINDING lines may be printed)
exit 1  VIOLATION property=<id> replay=<path>   (a ledgered obligation now fails with a definite answer)
exit 2  undecided: tooling problem, lost anchor, unsupported construct, solver limit (never a verdict)
"""
import argparse
import hashlib
import json
import os
import re
import sys
import time

HERE = os.path.dirname(os.path.abspath(__file__))
sys.path.insert(0, os.path.join(HERE, 'vlib'))
import weave as W
import verus_lane as V
import propmap as PM

REPO = os.environ.get('VERIF_REPO', '/repo')
CONTRACTS = os.path.join(HERE, 'contracts')
CACHE = os.path.join(HERE, '.cache')
EVID = os.environ.get('VERIF_EVID_DIR', os.path.join(HERE, 'evidence'))
REPLAY = os.environ.get('VERIF_REPLAY_DIR', os.path.join(HERE, 'replay'))
LEDGER = os.path.join(HERE, 'baseline_obligations.json')
FINDINGS = os.path.join(HERE, 'known_findings.json')
TRUSTED = os.path.join(HERE, 'trusted_base.json')
BASELINE_SRC = os.path.join(HERE, 'baseline_src')


def log(*a):
    print(*a, file=sys.stderr)
    sys.stderr.flush()


def lemma_modules():
    d = os.path.join(CONTRACTS, 'lemmas')
    if not os.path.isdir(d):
        return []
    return [os.path.join('lemmas', f) for f in sorted(os.listdir(d)) if f.endswith('.rs')]


def verus_verdict(tier, use_cache=True):
    """weave + verus on the whole crate; returns dict"""
    dropped = set()
    override = {}
    drop_fns = set()
    HINT_KINDS = ('head', 'tail', 'after', 'before', 'loop', 'loopbody')
    for attempt in range(8):
        vd = _verus_verdict_once(tier, use_cache, dropped, override, drop_fns)
        errs = [j for j in vd['res'].get('diags', []) if j.get('level') == 'error' and j.get('code')]
        if not errs:
            if vd['res']['rc'] != 0 and not vd['res'].get('verified') and not vd['diags'] and os.path.isdir(BASELINE_SRC):
                # verus died without a diagnostic (internal error on an unsupported construct, e.g. thread_local!): replace every
                # module whose text differs from the baseline, so that the unchanged modules still get a verdict
                changed = []
                for dp, dn, fns_ in os.walk(os.path.join(REPO, 'src')):
                    for fn_ in fns_:
                        rel = os.path.relpath(os.path.join(dp, fn_), os.path.join(REPO, 'src'))
                        bp = os.path.join(BASELINE_SRC, rel)
                        if fn_.endswith('.rs') and os.path.exists(bp) and rel not in override and open(bp).read() != open(os.path.join(dp, fn_)).read():
                            changed.append(rel)
                if changed:
                    for rel in changed:
                        override[rel] = os.path.join(BASELINE_SRC, rel)
                    continue
            break
        # rustc-level errors: the woven text does not compile.  Attribute every error span to a module.
        #  * error inside an inserted proof HINT (head/tail/after/before/loop...) of a module: drop that directive (recorded as a
        #    lost hint) -- e.g. an invariant naming a loop variable that was renamed;
        #  * error in a module's source text, in its contract-defining directives or in its generated layout text: the module's
        #    current text does not fit its contracts any more.  Replace the module by its BASELINE text (baseline_src/, the
        #    snapshot taken with the ledger) so that the other modules still get a verdict -- modular reasoning only needs the
        #    module's contract.  Every obligation of a replaced module is undecided.
        newdrop, bad, newfns = set(), set(), set()
        w_ = vd['w']
        for j in errs:
            for sp in j.get('spans', []):
                ln = sp.get('line_start')
                if ln is not None and ln not in w_.src_line and ln not in w_.ins_line:
                    # inside a lemma / client module appended to the crate: drop that function
                    for f_ in vd['fns']:
                        if f_.lo <= ln <= f_.hi and f_.has_body and (f_.module.startswith('lemmas_') or f_.module == 'client') and f_.name not in drop_fns:
                            newfns.add(f_.name)
                if ln in w_.src_line:
                    bad.add(w_.src_line[ln][0])
                elif ln in w_.ins_line:
                    rep = w_.ins_line[ln]
                    mmv = re.match(r'(\w+)\.vspec:\d+ //@ (\w+)', rep)
                    if mmv and mmv.group(2) in HINT_KINDS and rep not in dropped:
                        newdrop.add(rep)
                    elif mmv:
                        for cand in ('indicators/%s.rs' % mmv.group(1), '%s.rs' % mmv.group(1)):
                            if os.path.exists(os.path.join(REPO, 'src', cand)):
                                bad.add(cand)
                    else:
                        ml = re.search(r'layout (\w+)', rep)
                        if ml:
                            for rel2, info in getattr(w_, 'struct_files', {}).items():
                                if ml.group(1) in info:
                                    bad.add(rel2)
        bad = set(rel for rel in bad if rel not in override and os.path.exists(os.path.join(BASELINE_SRC, rel))
                  and open(os.path.join(BASELINE_SRC, rel)).read() != open(os.path.join(REPO, 'src', rel)).read())
        if bad:
            for rel in bad:
                override[rel] = os.path.join(BASELINE_SRC, rel)
            # directives dropped for a module that is now replaced are restored
            dropped = set(d for d in dropped if not any(os.path.basename(rel)[:-3] + '.vspec' in d for rel in bad))
            continue
        if newdrop:
            dropped |= newdrop
            continue
        if newfns:
            drop_fns |= newfns
            continue
        break
    vd['compile_errors'] = [j.get('message', '')[:200] for j in vd['res'].get('diags', []) if j.get('level') == 'error' and j.get('code')]
    return vd


def _verus_verdict_once(tier, use_cache, dropped, override=None, drop_fns=()):
    w = W.weave(REPO, CONTRACTS, extra_modules=lemma_modules(), drop_directives=dropped, override_src=override, drop_extra_fns=drop_fns)
    fns = V.fn_table(w.text)
    rlimit = int(os.environ.get('VERIF_RLIMIT', 80 if tier == 'quick' else 160))
    key = hashlib.sha256((w.sha + '|rl%d' % rlimit).encode()).hexdigest()
    cpath = os.path.join(CACHE, 'verus', key + '.json')
    res = None
    if use_cache and os.path.exists(cpath) and not os.environ.get('VERIF_NO_CACHE'):
        try:
            res = json.load(open(cpath))
            res['cache'] = 'hit'
        except Exception:
            res = None
    if res is None:
        extra = ['--smt-option', 'smt.random_seed=' + os.environ['VERIF_SMT_SEED']] if os.environ.get('VERIF_SMT_SEED') else []
        res = V.run_verus(w.text, rlimit=rlimit, timeout=1200 if tier == 'quick' else 3000, extra=extra)
        res['cache'] = 'miss'
        os.makedirs(os.path.dirname(cpath), exist_ok=True)
        res['json_ok'] = res.get('json') is not None
        slim = {k: v for k, v in res.items() if k != 'json'}
        json.dump(slim, open(cpath, 'w'))
    diags = V.classify(res, w.text, fns, ins_lines=set(w.ins_line.keys()))
    inv = V.inventory(w.text, fns)
    # stability: a failure must recur under two other solver seeds (module-restricted re-runs); otherwise it is
    # reported as unstable (undecided), never as a violation
    # resource limits are not verdicts: a function that ran out of rlimit is re-verified under two other seeds with a doubled
    # budget; a proof found under any seed is a proof (recorded as `verified_on_retry`)
    starved = [d for d in diags if d.fn is not None and d.undecided and re.search(r'rlimit|[Rr]esource limit|timed? ?out', d.message)]
    if starved and not os.environ.get('VERIF_NO_RETRY'):
        mods_s = sorted(set(d.fn.module for d in starved if d.fn.module))
        rescued = set()
        for seed in (7, 23):
            r3 = V.run_verus(w.text, modules=mods_s, rlimit=rlimit * 3, timeout=1800, extra=['--smt-option', 'smt.random_seed=%d' % seed])
            d3 = V.classify(r3, w.text, fns, ins_lines=set(w.ins_line.keys()))
            bad3 = set(d.fn.id for d in d3 if d.fn is not None)
            if r3.get('verified') is not None:
                for d in starved:
                    if d.fn.id not in bad3:
                        rescued.add(d.fn.id)
        if rescued:
            diags = [d for d in diags if not (d in starved and d.fn.id in rescued)]
            res['verified_on_retry'] = sorted(rescued)
    failing = [d for d in diags if d.fn is not None and not d.undecided]
    if failing and not os.environ.get('VERIF_NO_RETRY'):
        mods = sorted(set(d.fn.module for d in failing if d.fn.module))
        recur = None
        retry_log = []
        for seed in (7, 23):
            ckey = hashlib.sha256((w.sha + '|rl%d|seed%d|%s' % (rlimit, seed, ','.join(mods))).encode()).hexdigest()
            cp = os.path.join(CACHE, 'verus', ckey + '.json')
            r2 = None
            if use_cache and os.path.exists(cp) and not os.environ.get('VERIF_NO_CACHE'):
                r2 = json.load(open(cp))
            if r2 is None:
                r2 = V.run_verus(w.text, modules=mods, rlimit=rlimit * 2, timeout=1200, extra=['--smt-option', 'smt.random_seed=%d' % seed])
                r2['json_ok'] = r2.get('json') is not None
                json.dump({k: v for k, v in r2.items() if k != 'json'}, open(cp, 'w'))
            d2 = V.classify(r2, w.text, fns, ins_lines=set(w.ins_line.keys()))
            keys2 = set((d.fn.id, k) for d in d2 if d.fn is not None and not d.undecided for k in d.kinds)
            und2 = set(d.fn.id for d in d2 if d.fn is not None and d.undecided)
            retry_log.append({'seed': seed, 'modules': mods, 'failing': len(keys2), 'wall_s': round(r2.get('wall_s', 0), 1)})
            recur = keys2 if recur is None else (recur & keys2)
        for d in failing:
            if not any((d.fn.id, k) in recur for k in d.kinds):
                d.undecided = True
                d.message = 'UNSTABLE (fails under the default seed, verifies under seed 7 or 23): ' + d.message
        res['retry'] = retry_log
    return {'w': w, 'fns': fns, 'res': res, 'diags': diags, 'inv': inv}


def trusted_scan(text):
    """every assumption present in the woven text"""
    items = []
    for mm in re.finditer(r'\b(?:broadcast\s+)?axiom\s+fn\s+(\w+)', text):
        items.append('axiom fn ' + mm.group(1))
    for mm in re.finditer(r'assume_specification\s*(?:<[^>]*>\s*)?\[\s*([^\]]+?)\s*\]', text):
        items.append('assume_specification ' + ' '.join(mm.group(1).split()))
    m = V.mask(text)
    for mm in re.finditer(r'#\[verifier::(external_body|external)\]\s*(?:/\*[^*]*\*/\s*)*(?:pub(?:\([a-z]+\))?\s+)?fn\s+(\w+)', text):
        items.append('%s fn %s' % (mm.group(1), mm.group(2)))
    for mm in re.finditer(r'\b(assume|admit)\s*\(', m):
        items.append(mm.group(1) + '() at woven offset %d' % mm.start())
    return sorted(set(items))


def fn_by_id(fns):
    return {f.id: f for f in fns}


def property_obligations(vd, pid):
    """[(obligation id, fn id, kind, [clause texts])] of property pid"""
    out = []
    byid = fn_by_id(vd['fns'])
    for fid, kinds in vd['inv'].items():
        f = byid[fid]
        for kind, clauses in kinds.items():
            props = PM.props_for(f.module, kind, f)
            if f.delegated_bar if hasattr(f, 'delegated_bar') else False:
                pass
            if pid in props or ('*' in props):
                out.append(('%s#%s' % (fid, kind), fid, kind, clauses, '*' in props and pid not in props))
    return out


def diag_props(vd, dg):
    ps = set()
    for k in dg.kinds:
        for p in PM.props_for(dg.fn.module if dg.fn else '', k, dg.fn):
            ps.add(p)
    return ps


def load_json(path, default):
    try:
        return json.load(open(path))
    except Exception:
        return default


def src_loc(vd, line):
    w = vd['w']
    if line in w.src_line:
        rel, sl = w.src_line[line]
        return '%s/src/%s:%d' % (REPO, rel, sl)
    if line in w.ins_line:
        return 'contract ' + w.ins_line[line]
    return 'woven:%d' % line


def vacuity():
    """every woven function gets `assert(false)` as its first statement; each one must FAIL.  A function where it
    verifies has a contradictory precondition or the axioms are inconsistent.  -> (n_functions, [vacuous fn ids])"""
    w = W.weave(REPO, CONTRACTS, extra_modules=lemma_modules())
    fns = V.fn_table(w.text)
    lines = w.text.split('\n')
    targets = []
    m = V.mask(w.text)
    starts = [0]
    for mm in re.finditer('\n', w.text):
        starts.append(mm.end())
    edits = []
    for f in fns:
        if f.mode not in ('exec', 'proof') or f.external:
            continue
        if f.trait_impl and f.trait_impl.startswith('decl:'):
            continue
        # position of the body's opening brace: first '{' at depth 0 on/after body_lo line start
        a = starts[f.lo - 1]
        b = starts[f.hi] if f.hi < len(starts) else len(w.text)
        seg = m[a:b]
        k = seg.find('{')
        # the body brace is the one whose matching close is the last '}' of the item
        pos = None
        j = a
        while True:
            k = m.find('{', j, b)
            if k < 0:
                break
            try:
                e = V.match_close(m, k)
            except Exception:
                break
            if e >= b - 3 or m[e + 1:b].strip() == '':
                pos = k
                break
            j = k + 1
        if pos is None:
            continue
        stmt = ' proof { assert(false); } ' if f.mode == 'exec' else ' assert(false); '
        edits.append((pos + 1, stmt))
        targets.append(f)
    text = w.text
    for pos, stmt in sorted(edits, reverse=True):
        text = text[:pos] + stmt + text[pos:]
    res = V.run_verus(text, rlimit=40, timeout=2400)
    fns2 = V.fn_table(text)
    diags = V.classify(res, text, fns2)
    failed_ids = set(d.fn.id for d in diags if d.fn is not None)
    vac = [f.id for f in targets if f.id not in failed_ids]
    return len(targets), vac, res


def dev(filter_):
    vd = verus_verdict('quick', use_cache=False)
    res = vd['res']
    log('verus rc=%s wall=%.1fs verified=%s errors=%s' % (res['rc'], res['wall_s'], res.get('verified'), res.get('errors')))
    if vd['w'].lost_hints:
        log('LOST HINTS:', vd['w'].lost_hints)
    n = 0
    for dg in vd['diags']:
        fid = dg.fn.id if dg.fn else '?'
        if filter_ and filter_ not in fid and filter_ not in dg.rendered:
            continue
        n += 1
        print('---- %s  kinds=%s undecided=%s  [%s]' % (fid, dg.kinds, dg.undecided, src_loc(vd, dg.line)))
        print(dg.rendered.rstrip())
    if not res.get('json_ok'):
        print(res['raw_err'][-6000:])
    print('%d diagnostics shown; functions under contract: %d' % (n, len(vd['inv'])))
    if os.environ.get('KEEP'):
        open(os.environ['KEEP'], 'w').write(vd['w'].text)
    return 0


def main():
    ap = argparse.ArgumentParser()
    ap.add_argument('prop', nargs='?')
    ap.add_argument('--tier', default=os.environ.get('VERIF_TIER', 'quick'))
    ap.add_argument('--replay')
    ap.add_argument('--dev', nargs='?', const='', default=None)
    ap.add_argument('--make-ledger', action='store_true')
    ap.add_argument('--vacuity', action='store_true')
    ap.add_argument('--make-trusted', action='store_true')
    a = ap.parse_args()
    if a.vacuity:
        n, vac, res = vacuity()
        print('vacuity pass: %d functions got assert(false); %d verified it (vacuous): %s; verus errors=%s wall=%.1fs' % (n, len(vac), vac[:20], res.get('errors'), res['wall_s']))
        return 0 if not vac else 2
    if a.make_ledger or a.make_trusted:
        vd = verus_verdict('quick', use_cache=False)
        if a.make_trusted:
            json.dump({'items': trusted_scan(vd['w'].text)}, open(TRUSTED, 'w'), indent=1)
            print('trusted_base.json: %d items' % len(trusted_scan(vd['w'].text)))
        if a.make_ledger:
            bad = set()
            for dg in vd['diags']:
                if dg.fn is not None:
                    for k in (dg.kinds or ['?']):
                        bad.add('%s#%s' % (dg.fn.id, k))
                    if dg.undecided:
                        bad.add(dg.fn.id)
            obl = []
            for fid, kinds in vd['inv'].items():
                for k in kinds:
                    oid = '%s#%s' % (fid, k)
                    if oid not in bad and fid not in bad:
                        obl.append(oid)
            import kani_lane as K
            prev = load_json(LEDGER, {'obligations': []})['obligations']
            table = K.harness_table()
            want = [n for n, h in table.items() if h['tier'] == 'quick' or os.environ.get('VERIF_LEDGER_THOROUGH')]
            kr = K.run_harnesses(want)
            for n in want:
                oid = 'kani::%s::%s' % (table[n]['module'], n)
                if kr['results'].get(n, {}).get('status') == 'SUCCESSFUL':
                    obl.append(oid)
                else:
                    print('kani harness not successful on the baseline, excluded from ledger:', n, kr['results'].get(n, {}).get('status'))
            # keep thorough-tier kani entries recorded by an earlier --make-ledger run with VERIF_LEDGER_THOROUGH=1
            for oid in prev:
                if oid.startswith('kani::') and oid not in obl and oid.split('::')[-1] in table and table[oid.split('::')[-1]]['tier'] != 'quick' and not os.environ.get('VERIF_LEDGER_THOROUGH'):
                    obl.append(oid)
            import shutil
            shutil.rmtree(BASELINE_SRC, ignore_errors=True)
            shutil.copytree(os.path.join(REPO, 'src'), BASELINE_SRC)
            json.dump({'note': 'obligations discharged on the pinned tree after the fix: commits; regenerate deliberately with check.py --make-ledger',
                       'repo_head': os.popen('git -C %s rev-parse HEAD' % REPO).read().strip(), 'obligations': sorted(obl)}, open(LEDGER, 'w'), indent=1)
            print('ledger: %d obligations (%d failing excluded)' % (len(obl), len(bad)))
        return 0
    if a.dev is not None:
        return dev(a.dev)
    import driver
    if a.replay:
        return driver.replay(a.replay)
    if not a.prop:
        ap.error('property id required')
    return driver.check(a.prop, a.tier)


if __name__ == '__main__':
    try:
        sys.exit(main())
    except W.WeaveError as e:
        print('UNDECIDED: weaving failed: %s' % e)
        sys.exit(2)
    except SystemExit:
        raise
    except BaseException as e:      # a crash of the machinery is never a verdict
        import traceback
        traceback.print_exc()
        print('UNDECIDED: internal error in the checking machinery: %r' % (e,))
        sys.exit(2)
