use std::fmt;

use crate::errors::{Result, TaError};
use crate::{Close, High, Low, Next, Period, Reset, Volume};

#[cfg(feature = "serde")]
use serde::{Deserialize, Serialize};

/// Money Flow Index (MFI).
///
/// The MFI is an volume and price based oscillator which gives moneyflow over n periods.
/// MFI is used to measure buying and selling pressure.
/// MFI is also known as volume-weighted RSI.
///
/// # Formula
///
/// Typical Price(TP) = (High + Low + Close)/3
///
/// Money Flow(MF) = Typical Price x Volume
///
/// MF is positive when currennt TP is greater that previous period TP and
/// negative when current TP is less than preivous TP.
///
/// Positive money flow (PMF)- calculated by adding the money flow of all the days RMF is positive.
///
/// Negative money flow (NMF)- calculated by adding the money flow of all the days RMF is negative.
///
/// Money Flow Index(MFI) = PMF / (PMF + NMF) * 100
///
///
/// # Parameters
///
/// * _period_ - number of periods, integer greater than 0
///
/// # Example
///
/// ```
/// use ta::indicators::MoneyFlowIndex;
/// use ta::{Next, DataItem};
///
/// let mut mfi = MoneyFlowIndex::new(3).unwrap();
/// let di = DataItem::builder()
///             .high(3.0)
///             .low(1.0)
///             .close(2.0)
///             .open(1.5)
///             .volume(1000.0)
///             .build().unwrap();
/// mfi.next(&di);
///
/// ```
/// # Links
/// * [Money Flow Index, Wikipedia](https://en.wikipedia.org/wiki/Money_flow_index)
/// * [Money Flow Index, stockcharts](https://stockcharts.com/school/doku.php?id=chart_school:technical_indicators:money_flow_index_mfi)

#[doc(alias = "MFI")]
#[cfg_attr(feature = "serde", derive(Serialize, Deserialize))]
#[derive(Debug, Clone)]
pub struct MoneyFlowIndex {
    period: usize,
    index: usize,
    count: usize,
    previous_typical_price: f64,
    total_positive_money_flow: f64,
    total_negative_money_flow: f64,
    deque: Box<[f64]>,
}

impl MoneyFlowIndex {
    pub fn new(period: usize) -> Result<Self> {
        match period {
            0 => Err(TaError::InvalidParameter),
            _ => Ok(Self {
                period,
                index: 0,
                count: 0,
                previous_typical_price: 0.0,
                total_positive_money_flow: 0.0,
                total_negative_money_flow: 0.0,
                deque: vec![0.0; period].into_boxed_slice(),
            }),
        }
    }
}

impl Period for MoneyFlowIndex {
    fn period(&self) -> usize {
        self.period
    }
}

impl<T: High + Low + Close + Volume> Next<&T> for MoneyFlowIndex {
    type Output = f64;

    fn next(&mut self, input: &T) -> f64 {
        let tp = (input.close() + input.high() + input.low()) / 3.0;

        self.index = if self.index + 1 < self.period {
            self.index + 1
        } else {
            0
        };

        if self.count < self.period {
            self.count = self.count + 1;
            if self.count == 1 {
                self.previous_typical_price = tp;
                return 50.0;
            }
        } else {
            let popped = self.deque[self.index];
            if popped.is_sign_positive() {
                self.total_positive_money_flow -= popped;
            } else {
                self.total_negative_money_flow += popped;
            }
        }

        if tp > self.previous_typical_price {
            let raw_money_flow = tp * input.volume();
            self.total_positive_money_flow += raw_money_flow;
            self.deque[self.index] = raw_money_flow;
        } else if tp < self.previous_typical_price {
            let raw_money_flow = tp * input.volume();
            self.total_negative_money_flow += raw_money_flow;
            self.deque[self.index] = -raw_money_flow;
        } else {
            self.deque[self.index] = 0.0;
        }
        self.previous_typical_price = tp;

        if self.total_positive_money_flow + self.total_negative_money_flow == 0.0 {
            // No money flow in the window (zero volume or unchanged typical price): avoid 0/0
            return 50.0;
        }

        self.total_positive_money_flow
            / (self.total_positive_money_flow + self.total_negative_money_flow)
            * 100.0
    }
}

impl Default for MoneyFlowIndex {
    fn default() -> Self {
        Self::new(14).unwrap()
    }
}

impl fmt::Display for MoneyFlowIndex {
    fn fmt(&self, f: &mut fmt::Formatter) -> fmt::Result {
        write!(f, "MFI({})", self.period)
    }
}

impl Reset for MoneyFlowIndex {
    fn reset(&mut self) {
        self.index = 0;
        self.count = 0;
        self.previous_typical_price = 0.0;
        self.total_positive_money_flow = 0.0;
        self.total_negative_money_flow = 0.0;
        for i in 0..self.period {
            self.deque[i] = 0.0;
        }
    }
}

#[cfg(test)]
mod tests {
    use super::*;
    use crate::test_helper::*;

    #[test]
    fn test_new() {
        assert!(MoneyFlowIndex::new(0).is_err());
        assert!(MoneyFlowIndex::new(1).is_ok());
    }

    #[test]
    fn test_next_bar() {
        let mut mfi = MoneyFlowIndex::new(3).unwrap();

        let bar1 = Bar::new().high(3).low(1).close(2).volume(500.0);
        assert_eq!(round(mfi.next(&bar1)), 50.0);

        let bar2 = Bar::new().high(2.3).low(2.0).close(2.3).volume(1000.0);
        assert_eq!(round(mfi.next(&bar2)), 100.0);

        let bar3 = Bar::new().high(9).low(7).close(8).volume(200.0);
        assert_eq!(round(mfi.next(&bar3)), 100.0);

        let bar4 = Bar::new().high(5).low(3).close(4).volume(500.0);
        assert_eq!(round(mfi.next(&bar4)), 65.517);

        let bar5 = Bar::new().high(4).low(2).close(3).volume(5000.0);
        assert_eq!(round(mfi.next(&bar5)), 8.602);

        let bar6 = Bar::new().high(2).low(1).close(1.5).volume(6000.0);
        assert_eq!(round(mfi.next(&bar6)), 0.0);

        let bar7 = Bar::new().high(2).low(2).close(2).volume(7000.0);
        assert_eq!(round(mfi.next(&bar7)), 36.842);

        let bar8 = Bar::new().high(2).low(2).close(2).volume(7000.0);
        assert_eq!(round(mfi.next(&bar8)), 60.87);
    }

    #[test]
    fn test_reset() {
        let mut mfi = MoneyFlowIndex::new(3).unwrap();

        let bar1 = Bar::new().high(3).low(1).close(2).volume(500.0);
        let bar2 = Bar::new().high(2.3).low(2.0).close(2.3).volume(1000.0);

        assert_eq!(round(mfi.next(&bar1)), 50.0);
        assert_eq!(round(mfi.next(&bar2)), 100.0);

        mfi.reset();

        assert_eq!(round(mfi.next(&bar1)), 50.0);
        assert_eq!(round(mfi.next(&bar2)), 100.0);
    }

    #[test]
    fn test_default() {
        MoneyFlowIndex::default();
    }

    #[test]
    fn test_display() {
        let mfi = MoneyFlowIndex::new(10).unwrap();
        assert_eq!(format!("{}", mfi), "MFI(10)");
    }
}
