#!/usr/bin/env python3
"""generates kani/<module>.ref.rs: differential harnesses -- the real indicator, driven through its public API from new(P),
against the textbook definition evaluated from scratch on the recorded history, after EVERY prefix.  Inputs are small integers
(float arithmetic on them is exact, so incremental and from-scratch evaluation must agree bit for bit) or, for the
comparison-only indicators, arbitrary finite f64.  Bounded stand-ins: period P, K steps."""
import os
here = os.path.dirname(os.path.abspath(__file__))
SMALL = 'fn vk_small_int() -> f64 { let v: i8 = kani::any(); kani::assume(v >= -4 && v <= 4); v as f64 }\n'
POS = 'fn vk_small_pos() -> f64 { let v: u8 = kani::any(); kani::assume(v >= 1 && v <= 8); v as f64 }\n'
FIN = 'fn vk_any_finite() -> f64 { let v: f64 = kani::any(); kani::assume(v.is_finite()); v }\n'
WIN = '''        let n = if t + 1 < P { t + 1 } else { P };       // the window is exactly the last min(t+1, P) inputs
        let lo = t + 1 - n;
'''
H = {}
H['simple_moving_average'] = ('sma', 'SimpleMovingAverage', SMALL, 'vk_small_int()', 'C01,C17', WIN + '''        let mut s = 0.0;
        let mut j = lo;
        while j <= t { s += hist[j]; j += 1; }
        assert!(out == s / (n as f64));
''')
H['weighted_moving_average'] = ('wma', 'WeightedMovingAverage', SMALL, 'vk_small_int()', 'C01,C17', WIN + '''        let mut s = 0.0;
        let mut j = lo;
        while j <= t { s += hist[j] * ((j - lo + 1) as f64); j += 1; }      // weights 1..n, newest heaviest
        let nf = n as f64;
        assert!(out == s / (nf * (nf + 1.0) / 2.0));
''')
H['minimum'] = ('min', 'Minimum', FIN, 'vk_any_finite()', 'C01,C17', WIN + '''        let mut m = hist[lo];
        let mut j = lo;
        while j <= t { if hist[j] < m { m = hist[j]; } j += 1; }
        assert!(out == m);                                   // exactly the least element of the window
''')
H['maximum'] = ('max', 'Maximum', FIN, 'vk_any_finite()', 'C01,C17', WIN + '''        let mut m = hist[lo];
        let mut j = lo;
        while j <= t { if hist[j] > m { m = hist[j]; } j += 1; }
        assert!(out == m);
''')
H['fast_stochastic'] = ('fs', 'FastStochastic', SMALL, 'vk_small_int()', 'C03,C07,C08,C17', WIN + '''        let (mut mn, mut mx) = (hist[lo], hist[lo]);
        let mut j = lo;
        while j <= t { if hist[j] < mn { mn = hist[j]; } if hist[j] > mx { mx = hist[j]; } j += 1; }
        let want = if mn == mx { 50.0 } else { (x - mn) / (mx - mn) * 100.0 };
        assert!(out == want);
        assert!(out >= 0.0 && out <= 100.0);
''')
H['rate_of_change'] = ('roc', 'RateOfChange', POS, 'vk_small_pos()', 'C03,C17', '''        let prev = if t == 0 { x } else if t < P { hist[0] } else { hist[t - P] };   // first price until P earlier prices exist
        let want = (x - prev) / prev * 100.0;
        assert!(out == want);
        if x == prev { assert!(out == 0.0); }
''')
H['efficiency_ratio'] = ('er', 'EfficiencyRatio', SMALL, 'vk_small_int()', 'C03,C07,C08,C17', WIN + '''        let first = if t == 0 { 0.0 } else { let m = if t < P { t } else { P }; hist[t - m] };   // the input before the window (0 before any)
        let mut vol = 0.0;
        let mut prev = first;
        let mut j = lo;
        while j <= t { vol += (prev - hist[j]).abs(); prev = hist[j]; j += 1; }
        if vol == 0.0 { assert!(out == 1.0); } else { assert!(out == (first - x).abs() / vol); }
        assert!(out >= 0.0 && out <= 1.0);
''')
H['mean_absolute_deviation'] = ('mad', 'MeanAbsoluteDeviation', SMALL, 'vk_small_int()', 'C01,C09,C17', WIN + '''        let mut s = 0.0;
        let mut j = lo;
        while j <= t { s += hist[j]; j += 1; }
        let mean = s / (n as f64);
        let mut d = 0.0;
        let mut j2 = lo;
        while j2 <= t { d += (hist[j2] - mean).abs(); j2 += 1; }
        let want = d / (n as f64);
        assert!(out >= 0.0);
        assert!((out - want).abs() <= 1e-12);                // summation order differs (buffer order vs chronological)
''')
H['standard_deviation'] = ('sd', 'StandardDeviation', SMALL, 'vk_small_int()', 'C01,C09,C17', WIN + '''        let mut s = 0.0;
        let mut j = lo;
        while j <= t { s += hist[j]; j += 1; }
        let mean = s / (n as f64);
        let mut q = 0.0;
        let mut j2 = lo;
        while j2 <= t { q += (hist[j2] - mean) * (hist[j2] - mean); j2 += 1; }
        let var = q / (n as f64);
        assert!(out >= 0.0);
        assert!((out * out - var).abs() <= 1e-9);            // population variance of exactly the window (Welford vs two-pass)
''')
QUICK = {('sma', 1), ('sma', 2), ('wma', 1), ('wma', 2), ('min', 1), ('min', 2), ('min', 3), ('max', 1), ('max', 2), ('max', 3),
         ('roc', 1), ('roc', 2), ('roc', 3), ('fs', 1), ('fs', 2), ('er', 1), ('mad', 1), ('sd', 1)}
SKIP = {('sd', 3), ('mad', 3), ('er', 3)}     # these exceeded 10-15 minutes of CBMC time (sd p3 did not finish in 900 s)
def tier(short, p):
    return 'quick' if (short, p) in QUICK else 'thorough'
for mod, (short, ty, gen, inp, props, body) in H.items():
    out = gen + f'''
// differential check against the textbook definition on the recorded history, after every prefix
fn vk_{short}_matches_reference<const P: usize, const K: usize>() {{
    let mut ind = {ty}::new(P).unwrap();
    let mut hist = [0.0f64; K];
    let mut t = 0;
    while t < K {{
        let x = {inp};
        hist[t] = x;
        let out = ind.next(x);
{body}        t += 1;
    }}
}}
// @harness vk_{short}_matches_reference_p1 props={props} kind=bounded(period=1,steps=3) tier={tier(short, 1)}
#[kani::proof] #[kani::unwind(6)] fn vk_{short}_matches_reference_p1() {{ vk_{short}_matches_reference::<1, 3>() }}
// @harness vk_{short}_matches_reference_p2 props={props} kind=bounded(period=2,steps=5) tier={tier(short, 2)}
#[kani::proof] #[kani::unwind(8)] fn vk_{short}_matches_reference_p2() {{ vk_{short}_matches_reference::<2, 5>() }}
''' + ('' if (short, 3) in SKIP else f'''// @harness vk_{short}_matches_reference_p3 props={props} kind=bounded(period=3,steps=6) tier={tier(short, 3)}
#[kani::proof] #[kani::unwind(9)] fn vk_{short}_matches_reference_p3() {{ vk_{short}_matches_reference::<3, 6>() }}
''')
    open(os.path.join(here, mod + '.ref.rs'), 'w').write(out)
print(len(H))
