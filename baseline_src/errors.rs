use std::error::Error;
use std::fmt::{Display, Formatter};

pub type Result<T> = std::result::Result<T, TaError>;

#[derive(Debug, PartialEq, Eq, Clone)]
pub enum TaError {
    InvalidParameter,
    DataItemIncomplete,
    DataItemInvalid,
}

impl Display for TaError {
    fn fmt(&self, f: &mut Formatter) -> std::fmt::Result {
        match *self {
            TaError::InvalidParameter => write!(f, "invalid parameter"),
            TaError::DataItemIncomplete => write!(f, "data item is incomplete"),
            TaError::DataItemInvalid => write!(f, "data item is invalid"),
        }
    }
}

impl Error for TaError {
    fn source(&self) -> Option<&(dyn Error + 'static)> {
        match *self {
            TaError::InvalidParameter => None,
            TaError::DataItemIncomplete => None,
            TaError::DataItemInvalid => None,
        }
    }
}
