// @harness vk_ema_new_all_periods props=C11,C12 kind=complete tier=quick
// every usize period: Err(InvalidParameter) iff 0, otherwise Ok without panic (overflow checks on), period() returns it,
// k is finite, 0 < k <= 1
#[kani::proof]
fn vk_ema_new_all_periods() {
    let p: usize = kani::any();
    let r = ExponentialMovingAverage::new(p);
    if p == 0 {
        assert!(matches!(r, Err(TaError::InvalidParameter)));
    } else {
        let e = r.unwrap();
        assert!(e.period() == p);
        assert!(e.k > 0.0 && e.k <= 1.0);
        assert!(e.is_new && e.current == 0.0);
        if p == 1 { assert!(e.k == 1.0); }
        if p == 3 { assert!(e.k == 0.5); }
    }
}

// @harness vk_ema_next_bitprecise props=C02,C12 kind=complete tier=quick
// from any state and any input (incl. NaN/inf): first output is the input bit-identically; afterwards k*x + (1-k)*prev; never panics
#[kani::proof]
fn vk_ema_next_bitprecise() {
    let mut e = ExponentialMovingAverage { period: kani::any(), k: kani::any(), current: kani::any(), is_new: kani::any() };
    let (k, cur, fresh, per) = (e.k, e.current, e.is_new, e.period);
    let x: f64 = kani::any();
    let out = e.next(x);
    assert!(!e.is_new && e.period == per && e.k.to_bits() == k.to_bits());
    assert!(out.to_bits() == e.current.to_bits());
    if fresh {
        assert!(out.to_bits() == x.to_bits());
    } else {
        let want = k * x + (1.0 - k) * cur;
        assert!(out.to_bits() == want.to_bits() || (out.is_nan() && want.is_nan()));
    }
}

// @harness vk_ema_reset props=C04 kind=complete tier=quick
#[kani::proof]
fn vk_ema_reset() {
    let mut e = ExponentialMovingAverage { period: kani::any(), k: kani::any(), current: kani::any(), is_new: kani::any() };
    let (k, per) = (e.k, e.period);
    e.reset();
    assert!(e.is_new && e.current.to_bits() == 0.0f64.to_bits() && e.period == per && e.k.to_bits() == k.to_bits());
}
