#!/usr/bin/env python3
"""run Verus on the woven crate under several solver seeds; report functions that fail under any seed"""
import sys, os, json
sys.path.insert(0, '/verif/vlib'); sys.path.insert(0, '/verif')
import weave as W, verus_lane as V
import check as C
seeds = [int(x) for x in sys.argv[1].split(',')] if len(sys.argv) > 1 else [1, 2, 3, 4, 5]
mods = sys.argv[2:]  # optional module filter
w = W.weave(C.REPO, C.CONTRACTS, extra_modules=C.lemma_modules())
fns = V.fn_table(w.text)
bad = {}
for sd in seeds:
    r = V.run_verus(w.text, modules=mods or None, rlimit=80, extra=['--smt-option', 'smt.random_seed=%d' % sd])
    d = V.classify(r, w.text, fns, ins_lines=set(w.ins_line.keys()))
    fails = sorted(set((x.fn.id if x.fn else '?', x.message[:60]) for x in d))
    print('seed', sd, 'verified', r.get('verified'), 'errors', r.get('errors'), 'wall %.1f' % r['wall_s'], fails)
    for f in fails: bad.setdefault(f, []).append(sd)
print('UNSTABLE:' if bad else 'stable under all seeds', json.dumps({str(k): v for k, v in bad.items()}, indent=1) if bad else '')
