use std::fmt;

use crate::errors::Result;
use crate::indicators::{ExponentialMovingAverage, TrueRange};
use crate::{Close, High, Low, Next, Period, Reset};

#[cfg(feature = "serde")]
use serde::{Deserialize, Serialize};

/// Average true range (ATR).
///
/// A technical analysis volatility indicator, originally developed by J. Welles Wilder.
/// The average true range is an N-day smoothed moving average of the true range values.
/// This implementation uses exponential moving average.
///
/// # Formula
///
/// ATR(period)<sub>t</sub> = EMA(period) of TR<sub>t</sub>
///
/// Where:
///
/// * _EMA(period)_ - [exponential moving average](struct.ExponentialMovingAverage.html) with smoothing period
/// * _TR<sub>t</sub>_ - [true range](struct.TrueRange.html) for period _t_
///
/// # Parameters
///
/// * _period_ - smoothing period of EMA (integer greater than 0)
///
/// # Example
///
/// ```
/// extern crate ta;
/// #[macro_use] extern crate assert_approx_eq;
///
/// use ta::{Next, DataItem};
/// use ta::indicators::AverageTrueRange;
///
/// fn main() {
///     let data = vec![
///         // open, high, low, close, atr
///         (9.7   , 10.0, 9.0, 9.5  , 1.0),    // tr = high - low = 10.0 - 9.0 = 1.0
///         (9.9   , 10.4, 9.8, 10.2 , 0.95),   // tr = high - prev_close = 10.4 - 9.5 = 0.9
///         (10.1  , 10.7, 9.4, 9.7  , 1.125),  // tr = high - low = 10.7 - 9.4 = 1.3
///         (9.1   , 9.2 , 8.1, 8.4  , 1.3625), // tr = prev_close - low = 9.7 - 8.1 = 1.6
///     ];
///     let mut indicator = AverageTrueRange::new(3).unwrap();
///
///     for (open, high, low, close, atr) in data {
///         let di = DataItem::builder()
///             .high(high)
///             .low(low)
///             .close(close)
///             .open(open)
///             .volume(1000.0)
///             .build().unwrap();
///         assert_approx_eq!(indicator.next(&di), atr);
///     }
/// }
#[doc(alias = "ATR")]
#[cfg_attr(feature = "serde", derive(Serialize, Deserialize))]
#[derive(Debug, Clone)]
pub struct AverageTrueRange {
    true_range: TrueRange,
    ema: ExponentialMovingAverage,
}

impl AverageTrueRange {
    pub fn new(period: usize) -> Result<Self> {
        Ok(Self {
            true_range: TrueRange::new(),
            ema: ExponentialMovingAverage::new(period)?,
        })
    }
}

impl Period for AverageTrueRange {
    fn period(&self) -> usize {
        self.ema.period()
    }
}

impl Next<f64> for AverageTrueRange {
    type Output = f64;

    fn next(&mut self, input: f64) -> Self::Output {
        self.ema.next(self.true_range.next(input))
    }
}

impl<T: High + Low + Close> Next<&T> for AverageTrueRange {
    type Output = f64;

    fn next(&mut self, input: &T) -> Self::Output {
        self.ema.next(self.true_range.next(input))
    }
}

impl Reset for AverageTrueRange {
    fn reset(&mut self) {
        self.true_range.reset();
        self.ema.reset();
    }
}

impl Default for AverageTrueRange {
    fn default() -> Self {
        Self::new(14).unwrap()
    }
}

impl fmt::Display for AverageTrueRange {
    fn fmt(&self, f: &mut fmt::Formatter) -> fmt::Result {
        write!(f, "ATR({})", self.ema.period())
    }
}

#[cfg(test)]
mod tests {
    use super::*;
    use crate::test_helper::*;

    test_indicator!(AverageTrueRange);

    #[test]
    fn test_new() {
        assert!(AverageTrueRange::new(0).is_err());
        assert!(AverageTrueRange::new(1).is_ok());
    }
    #[test]
    fn test_next() {
        let mut atr = AverageTrueRange::new(3).unwrap();

        let bar1 = Bar::new().high(10).low(7.5).close(9);
        let bar2 = Bar::new().high(11).low(9).close(9.5);
        let bar3 = Bar::new().high(9).low(5).close(8);

        assert_eq!(atr.next(&bar1), 2.5);
        assert_eq!(atr.next(&bar2), 2.25);
        assert_eq!(atr.next(&bar3), 3.375);
    }

    #[test]
    fn test_reset() {
        let mut atr = AverageTrueRange::new(9).unwrap();

        let bar1 = Bar::new().high(10).low(7.5).close(9);
        let bar2 = Bar::new().high(11).low(9).close(9.5);

        atr.next(&bar1);
        atr.next(&bar2);

        atr.reset();
        let bar3 = Bar::new().high(60).low(15).close(51);
        assert_eq!(atr.next(&bar3), 45.0);
    }

    #[test]
    fn test_default() {
        AverageTrueRange::default();
    }

    #[test]
    fn test_display() {
        let indicator = AverageTrueRange::new(8).unwrap();
        assert_eq!(format!("{}", indicator), "ATR(8)");
    }
}
