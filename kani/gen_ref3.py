#!/usr/bin/env python3
"""generates kani/<module>.ref3.rs: differential harnesses for the bar-fed and composite indicators (KC, CE, MFI, SlowStochastic,
PPO, CCI) against their documented formulas written out from scratch.  Small integer inputs (multiples of 3 for bars, so that the
typical price is exact)."""
import os
here = os.path.dirname(os.path.abspath(__file__))
REF_EMA = '''fn vk3_ref_ema(hist: &[f64], t: usize, n: usize) -> f64 {
    let alpha = 2.0 / (n as f64 + 1.0);
    let mut e = hist[0];
    let mut j = 1;
    while j <= t { e = alpha * hist[j] + (1.0 - alpha) * e; j += 1; }
    e
}
'''
BAR = '''struct Vk3Bar { h: f64, l: f64, c: f64, v: f64 }
impl High for Vk3Bar { fn high(&self) -> f64 { self.h } }
impl Low for Vk3Bar { fn low(&self) -> f64 { self.l } }
impl Close for Vk3Bar { fn close(&self) -> f64 { self.c } }
impl Volume for Vk3Bar { fn volume(&self) -> f64 { self.v } }
fn vk3_m3() -> f64 { let v: u8 = kani::any(); kani::assume(v <= 3); (v as f64) * 3.0 }      // 0, 3, 6, 9
fn vk3_bar() -> Vk3Bar { let v: u8 = kani::any(); kani::assume(v <= 3); Vk3Bar { h: vk3_m3(), l: vk3_m3(), c: vk3_m3(), v: v as f64 } }
fn vk3_max3(a: f64, b: f64, c: f64) -> f64 { let m = if a >= b { a } else { b }; if m >= c { m } else { c } }
'''
F = {}
F['keltner_channel'] = REF_EMA + '''fn vk3_small() -> f64 { let v: i8 = kani::any(); kani::assume(v >= -4 && v <= 4); v as f64 }
// KeltnerChannel on scalars: average = EMA(x), bands = average +- multiplier * ATR, ATR = EMA(|x_t - x_{t-1}|)
fn vk_kc_matches_reference<const P: usize, const K: usize>() {
    let mult = 2.0;
    let mut ind = KeltnerChannel::new(P, mult).unwrap();
    let mut hist = [0.0f64; K];
    let mut trs = [0.0f64; K];
    let mut t = 0;
    while t < K {
        let x = vk3_small();
        hist[t] = x;
        trs[t] = if t == 0 { 0.0 } else { (x - hist[t - 1]).abs() };
        let out = ind.next(x);
        let (avg, atr) = (vk3_ref_ema(&hist, t, P), vk3_ref_ema(&trs, t, P));
        assert!(out.average == avg && out.upper == avg + atr * mult && out.lower == avg - atr * mult);
        assert!(out.lower <= out.average && out.average <= out.upper);
        t += 1;
    }
}
// @harness vk_kc_matches_reference_p3 props=C02,C09,C15 kind=bounded(period=3,steps=3) tier=quick
#[kani::proof] #[kani::unwind(6)] fn vk_kc_matches_reference_p3() { vk_kc_matches_reference::<3, 3>() }
'''
F['chandelier_exit'] = REF_EMA + BAR + '''
// ChandelierExit on bars: long = Maximum_n(high) - multiplier*ATR_n, short = Minimum_n(low) + multiplier*ATR_n,
// ATR = EMA of max(high-low, |high-prev close|, |low-prev close|) (high-low on the first bar)
fn vk_ce_matches_reference<const P: usize, const K: usize>() {
    let mult = 3.0;
    let mut ind = ChandelierExit::new(P, mult).unwrap();
    let mut highs = [0.0f64; K];
    let mut lows = [0.0f64; K];
    let mut trs = [0.0f64; K];
    let mut prev_close = 0.0;
    let mut t = 0;
    while t < K {
        let b = vk3_bar();
        highs[t] = b.h; lows[t] = b.l;
        trs[t] = if t == 0 { b.h - b.l } else { vk3_max3(b.h - b.l, (b.h - prev_close).abs(), (b.l - prev_close).abs()) };
        prev_close = b.c;
        let out = ind.next(&b);
        let n = if t + 1 < P { t + 1 } else { P };
        let lo = t + 1 - n;
        let (mut mx, mut mn) = (highs[lo], lows[lo]);
        let mut j = lo;
        while j <= t { if highs[j] > mx { mx = highs[j]; } if lows[j] < mn { mn = lows[j]; } j += 1; }
        let atr = vk3_ref_ema(&trs, t, P) * mult;
        assert!(out.long == mx - atr && out.short == mn + atr);
        t += 1;
    }
}
// @harness vk_ce_matches_reference_p2 props=C02,C09,C15 kind=bounded(period=2,steps=3) tier=thorough
#[kani::proof] #[kani::unwind(6)] fn vk_ce_matches_reference_p2() { vk_ce_matches_reference::<2, 3>() }
'''
F['money_flow_index'] = BAR + '''
// MFI = 100*PMF/(PMF+NMF) over the last n typical-price moves (first output 50; neutral 50 when there is no flow)
fn vk_mfi_matches_reference<const P: usize, const K: usize>() {
    let mut ind = MoneyFlowIndex::new(P).unwrap();
    let mut flows = [0.0f64; K];          // signed: + when the typical price rose, - when it fell, 0 otherwise / first bar
    let mut prev_tp = 0.0;
    let mut t = 0;
    while t < K {
        let b = vk3_bar();
        let tp = (b.c + b.h + b.l) / 3.0;
        flows[t] = if t == 0 { 0.0 } else if tp > prev_tp { tp * b.v } else if tp < prev_tp { -(tp * b.v) } else { 0.0 };
        prev_tp = tp;
        let out = ind.next(&b);
        if t == 0 { assert!(out == 50.0); } else {
            let n = if t + 1 < P { t + 1 } else { P };     // the last n moves (the first bar counts as a zero move)
            let (mut pos, mut neg) = (0.0, 0.0);
            let mut j = t + 1 - n;
            while j <= t { if flows[j] > 0.0 { pos += flows[j]; } else { neg += -flows[j]; } j += 1; }
            if pos + neg == 0.0 { assert!(out == 50.0); } else { assert!(out == pos / (pos + neg) * 100.0); }
            assert!(out >= 0.0 && out <= 100.0);
        }
        t += 1;
    }
}
// @harness vk_mfi_matches_reference_p2 props=C03,C07,C08,C17 kind=bounded(period=2,steps=4) tier=thorough
#[kani::proof] #[kani::unwind(7)] fn vk_mfi_matches_reference_p2() { vk_mfi_matches_reference::<2, 4>() }
'''
F['slow_stochastic'] = REF_EMA + '''fn vk3_small() -> f64 { let v: i8 = kani::any(); kani::assume(v >= -4 && v <= 4); v as f64 }
// SlowStochastic = EMA_m of FastStochastic_n (scalar input)
fn vk_ss_matches_reference<const P: usize, const M: usize, const K: usize>() {
    let mut ind = SlowStochastic::new(P, M).unwrap();
    let mut hist = [0.0f64; K];
    let mut ks = [0.0f64; K];
    let mut t = 0;
    while t < K {
        let x = vk3_small();
        hist[t] = x;
        let n = if t + 1 < P { t + 1 } else { P };
        let lo = t + 1 - n;
        let (mut mn, mut mx) = (hist[lo], hist[lo]);
        let mut j = lo;
        while j <= t { if hist[j] < mn { mn = hist[j]; } if hist[j] > mx { mx = hist[j]; } j += 1; }
        ks[t] = if mn == mx { 50.0 } else { (x - mn) / (mx - mn) * 100.0 };
        let out = ind.next(x);
        assert!(out == vk3_ref_ema(&ks, t, M));
        assert!(out >= 0.0 && out <= 100.0);
        t += 1;
    }
}
// @harness vk_ss_matches_reference_p2_m3 props=C03,C07,C15 kind=bounded(periods=(2,3),steps=3) tier=thorough
#[kani::proof] #[kani::unwind(6)] fn vk_ss_matches_reference_p2_m3() { vk_ss_matches_reference::<2, 3, 3>() }
'''
F['percentage_price_oscillator'] = REF_EMA + '''fn vk3_pos() -> f64 { let v: u8 = kani::any(); kani::assume(v >= 1 && v <= 8); v as f64 }
// PPO = 100*(EMA_fast - EMA_slow)/EMA_slow, signal = EMA(PPO), histogram = PPO - signal
fn vk_ppo_matches_reference<const PF: usize, const PS: usize, const PG: usize, const K: usize>() {
    let mut ind = PercentagePriceOscillator::new(PF, PS, PG).unwrap();
    let mut hist = [0.0f64; K];
    let mut line = [0.0f64; K];
    let mut t = 0;
    while t < K {
        let x = vk3_pos();
        hist[t] = x;
        let out = ind.next(x);
        let (f, s) = (vk3_ref_ema(&hist, t, PF), vk3_ref_ema(&hist, t, PS));
        line[t] = (f - s) / s * 100.0;
        let sig = vk3_ref_ema(&line, t, PG);
        assert!(out.ppo == line[t] && out.signal == sig && out.histogram == line[t] - sig);
        t += 1;
    }
}
// @harness vk_ppo_matches_reference_313 props=C03,C09,C15 kind=bounded(periods=(3,1,3),steps=3) tier=thorough
#[kani::proof] #[kani::unwind(6)] fn vk_ppo_matches_reference_313() { vk_ppo_matches_reference::<3, 1, 3, 3>() }
'''
for mod, body in F.items():
    open(os.path.join(here, mod + '.ref3.rs'), 'w').write(body)
print(len(F))
