use std::fmt;

use crate::errors::{Result, TaError};
use crate::{Close, Next, Period, Reset};
#[cfg(feature = "serde")]
use serde::{Deserialize, Serialize};

/// Weighted moving average (WMA).
///
/// A moving average that assigns weights that decrease in arithmetical progression.
/// In an _n_-day WMA the latest day has weight _n_, the second latest _n−1_, etc., down to one.
///
/// # Formula
///
/// ![WMA formula](https://wikimedia.org/api/rest_v1/media/math/render/svg/7780333af18da7e27a1186a3d566e28da21b2840)
///
/// Where:
///
/// * _WMA<sub>M</sub>_ - is the value of the WMA at time _m_
/// * _n_ - is the period.
/// * _p<sub>M</sub>_ - is the input value at a time period t.
///
/// # Example
///
/// ```
/// use ta::indicators::WeightedMovingAverage;
/// use ta::Next;
///
/// let mut wma = WeightedMovingAverage::new(3).unwrap();
/// assert_eq!(wma.next(10.0), 10.0);
/// assert_eq!(wma.next(13.0), 12.0);
/// assert_eq!(wma.next(16.0), 14.0);
/// assert_eq!(wma.next(14.0), 14.5);
/// ```
///
/// # Links
///
/// * [Weighted moving average, Wikipedia](https://en.wikipedia.org/wiki/Moving_average#Weighted_moving_average)
///

#[doc(alias = "WMA")]
#[cfg_attr(feature = "serde", derive(Serialize, Deserialize))]
#[derive(Debug, Clone)]
pub struct WeightedMovingAverage {
    period: usize,
    index: usize,
    count: usize,
    weight: f64,
    sum: f64,
    sum_flat: f64,
    deque: Box<[f64]>,
}

impl WeightedMovingAverage {
    pub fn new(period: usize) -> Result<Self> {
        match period {
            0 => Err(TaError::InvalidParameter),
            _ => Ok(Self {
                period,
                index: 0,
                count: 0,
                weight: 0.0,
                sum: 0.0,
                sum_flat: 0.0,
                deque: vec![0.0; period].into_boxed_slice(),
            }),
        }
    }
}

impl Period for WeightedMovingAverage {
    fn period(&self) -> usize {
        self.period
    }
}

impl Next<f64> for WeightedMovingAverage {
    type Output = f64;

    fn next(&mut self, input: f64) -> Self::Output {
        let old_val: f64 = self.deque[self.index];
        self.deque[self.index] = input;

        self.index = if self.index + 1 < self.period {
            self.index + 1
        } else {
            0
        };

        if self.count < self.period {
            self.count += 1;
            self.weight = self.count as f64;
            self.sum += input * self.weight
        } else {
            self.sum = self.sum - self.sum_flat + (input * self.weight);
        }
        self.sum_flat = self.sum_flat - old_val + input;
        self.sum / (self.weight * (self.weight + 1.0) / 2.0)
    }
}

impl<T: Close> Next<&T> for WeightedMovingAverage {
    type Output = f64;

    fn next(&mut self, input: &T) -> Self::Output {
        self.next(input.close())
    }
}

impl Reset for WeightedMovingAverage {
    fn reset(&mut self) {
        self.index = 0;
        self.count = 0;
        self.weight = 0.0;
        self.sum = 0.0;
        self.sum_flat = 0.0;
        for i in 0..self.period {
            self.deque[i] = 0.0;
        }
    }
}

impl Default for WeightedMovingAverage {
    fn default() -> Self {
        Self::new(9).unwrap()
    }
}

impl fmt::Display for WeightedMovingAverage {
    fn fmt(&self, f: &mut fmt::Formatter) -> fmt::Result {
        write!(f, "WMA({})", self.period)
    }
}

#[cfg(test)]
mod tests {
    use super::*;
    use crate::test_helper::*;

    test_indicator!(WeightedMovingAverage);

    #[test]
    fn test_new() {
        assert!(WeightedMovingAverage::new(0).is_err());
        assert!(WeightedMovingAverage::new(1).is_ok());
    }

    #[test]
    fn test_next() {
        let mut wma = WeightedMovingAverage::new(3).unwrap();

        assert_eq!(wma.next(12.0), 12.0);
        assert_eq!(wma.next(3.0), 6.0); // (1*12 + 2*3) / 3 = 6.0
        assert_eq!(wma.next(3.0), 4.5); // (1*12 + 2*3 + 3*3) / 6 = 4.5
        assert_eq!(wma.next(5.0), 4.0); // (1*3 + 2*3 + 3*5) / 6 = 4.0

        let mut wma = WeightedMovingAverage::new(3).unwrap();
        let bar1 = Bar::new().close(2);
        let bar2 = Bar::new().close(5);
        assert_eq!(wma.next(&bar1), 2.0);
        assert_eq!(wma.next(&bar2), 4.0);
    }

    #[test]
    fn test_reset() {
        let mut wma = WeightedMovingAverage::new(5).unwrap();

        assert_eq!(wma.next(4.0), 4.0);
        wma.next(10.0);
        wma.next(15.0);
        wma.next(20.0);
        assert_ne!(wma.next(4.0), 4.0);

        wma.reset();
        assert_eq!(wma.next(4.0), 4.0);
    }

    #[test]
    fn test_default() {
        WeightedMovingAverage::default();
    }

    #[test]
    fn test_display() {
        let wma = WeightedMovingAverage::new(7).unwrap();
        assert_eq!(format!("{}", wma), "WMA(7)");
    }
}
