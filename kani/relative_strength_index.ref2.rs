fn vk_pos2() -> f64 { let v: u8 = kani::any(); kani::assume(v >= 1 && v <= 8); v as f64 }
// EMA(n) over hist[0..=t], from scratch: first value, then alpha*x + (1-alpha)*prev with alpha = 2/(n+1)
fn vk_ref_ema(hist: &[f64], t: usize, n: usize) -> f64 {
    let alpha = 2.0 / (n as f64 + 1.0);
    let mut e = hist[0];
    let mut j = 1;
    while j <= t { e = alpha * hist[j] + (1.0 - alpha) * e; j += 1; }
    e
}

// RSI(n) = 100*U/(U+D), U and D the EMA(n) of gains and losses, both seeded 0.1 on the first input (so the first output is 50)
fn vk_rsi_matches_reference<const P: usize, const K: usize>() {
    let mut ind = RelativeStrengthIndex::new(P).unwrap();
    let mut ups = [0.0f64; K];
    let mut downs = [0.0f64; K];
    let mut prev = 0.0;
    let mut t = 0;
    while t < K {
        let x = vk_pos2();
        if t == 0 { ups[0] = 0.1; downs[0] = 0.1; }
        else if x > prev { ups[t] = x - prev; downs[t] = 0.0; } else { ups[t] = 0.0; downs[t] = prev - x; }
        prev = x;
        let out = ind.next(x);
        let (u, d) = (vk_ref_ema(&ups, t, P), vk_ref_ema(&downs, t, P));
        if t == 0 { assert!(out == 50.0); }
        if u + d != 0.0 { assert!(out == 100.0 * u / (u + d)); assert!(out >= 0.0 && out <= 100.0); } else { assert!(out == 50.0); }
        t += 1;
    }
}
// @harness vk_rsi_matches_reference_p1 props=C03,C07,C08 kind=bounded(period=1,steps=3) tier=quick
#[kani::proof] #[kani::unwind(6)] fn vk_rsi_matches_reference_p1() { vk_rsi_matches_reference::<1, 3>() }
// (the full formula comparison at period 2 / 4 steps did not finish in 2400 s on the unchanged tree; the range-only variant does)
// RSI stays in [0, 100] (public API only, no reference): period P, K positive prices
fn vk_rsi_in_range<const P: usize, const K: usize>() {
    let mut ind = RelativeStrengthIndex::new(P).unwrap();
    let mut t = 0;
    while t < K {
        let out = ind.next(vk_pos2());
        assert!(out >= 0.0 && out <= 100.0);
        t += 1;
    }
}
// @harness vk_rsi_in_range_p2 props=C07,C08 kind=bounded(period=2,steps=4) tier=thorough
#[kani::proof] #[kani::unwind(7)] fn vk_rsi_in_range_p2() { vk_rsi_in_range::<2, 4>() }
// @harness vk_rsi_matches_reference_p3 props=C03,C07,C08 kind=bounded(period=3,steps=3) tier=thorough
#[kani::proof] #[kani::unwind(6)] fn vk_rsi_matches_reference_p3() { vk_rsi_matches_reference::<3, 3>() }
