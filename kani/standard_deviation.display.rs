
// @harness vk_sd_display props=C11 kind=bounded(concrete-parameters) tier=thorough
// Display renders NAME(params): SD(9) (concrete parameters only)
#[kani::proof]
#[kani::unwind(40)]
fn vk_sd_display() {
    let ind = StandardDeviation::new(9).unwrap();
    let s = format!("{}", ind);
    assert!(s == "SD(9)");
}
