fn vk3_ref_ema(hist: &[f64], t: usize, n: usize) -> f64 {
    let alpha = 2.0 / (n as f64 + 1.0);
    let mut e = hist[0];
    let mut j = 1;
    while j <= t { e = alpha * hist[j] + (1.0 - alpha) * e; j += 1; }
    e
}
fn vk3_small() -> f64 { let v: i8 = kani::any(); kani::assume(v >= -4 && v <= 4); v as f64 }
// SlowStochastic = EMA_m of FastStochastic_n (scalar input)
fn vk_ss_matches_reference<const P: usize, const M: usize, const K: usize>() {
    let mut ind = SlowStochastic::new(P, M).unwrap();
    let mut hist = [0.0f64; K];
    let mut ks = [0.0f64; K];
    let mut t = 0;
    while t < K {
        let x = vk3_small();
        hist[t] = x;
        let n = if t + 1 < P { t + 1 } else { P };
        let lo = t + 1 - n;
        let (mut mn, mut mx) = (hist[lo], hist[lo]);
        let mut j = lo;
        while j <= t { if hist[j] < mn { mn = hist[j]; } if hist[j] > mx { mx = hist[j]; } j += 1; }
        ks[t] = if mn == mx { 50.0 } else { (x - mn) / (mx - mn) * 100.0 };
        let out = ind.next(x);
        assert!(out == vk3_ref_ema(&ks, t, M));
        assert!(out >= 0.0 && out <= 100.0);
        t += 1;
    }
}
// @harness vk_ss_matches_reference_p2_m3 props=C03,C07,C15 kind=bounded(periods=(2,3),steps=3) tier=thorough
#[kani::proof] #[kani::unwind(6)] fn vk_ss_matches_reference_p2_m3() { vk_ss_matches_reference::<2, 3, 3>() }
