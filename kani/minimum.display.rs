
// @harness vk_min_display props=C11 kind=bounded(concrete-parameters) tier=thorough
// Display renders NAME(params): MIN(14) (concrete parameters only)
#[kani::proof]
#[kani::unwind(40)]
fn vk_min_display() {
    let ind = Minimum::new(14).unwrap();
    let s = format!("{}", ind);
    assert!(s == "MIN(14)");
}
