use std::fmt;

#[cfg(feature = "serde")]
use serde::{Deserialize, Serialize};

use crate::errors::{Result, TaError};
use crate::{Close, Next, Period, Reset};

/// Mean Absolute Deviation (MAD)
///
/// The mean absolute deviation of a data set is the average of the absolute deviations from a
/// central point. It is a summary statistic of statistical dispersion or variability.
/// In the general form, the central point can be a mean, median, mode, or the result of any other
/// measure of central tendency or any random data point related to the given data set.
/// The absolute values of the differences between the data points and their central tendency are
/// totaled and divided by the number of data points.
///
/// # Formula
///
/// MAD(_period_) = { x<sub>1</sub> - ABS(AVG(_period_)), ..., x<sub>_period_</sub> - ABS(AVG(_period_)) } / _period_
///
/// # Parameters
///
/// * _period_ - number of periods (integer greater than 0). Default is 9.
///
/// # Links
///
/// * [Mean Absolute Deviation, Wikipedia](https://en.wikipedia.org/wiki/Mean_absolute_deviation)
///
#[cfg_attr(feature = "serde", derive(Serialize, Deserialize))]
#[derive(Debug, Clone)]
pub struct MeanAbsoluteDeviation {
    period: usize,
    index: usize,
    count: usize,
    sum: f64,
    deque: Box<[f64]>,
}

impl MeanAbsoluteDeviation {
    pub fn new(period: usize) -> Result<Self> {
        match period {
            0 => Err(TaError::InvalidParameter),
            _ => Ok(Self {
                period,
                index: 0,
                count: 0,
                sum: 0.0,
                deque: vec![0.0; period].into_boxed_slice(),
            }),
        }
    }
}

impl Period for MeanAbsoluteDeviation {
    fn period(&self) -> usize {
        self.period
    }
}

impl Next<f64> for MeanAbsoluteDeviation {
    type Output = f64;

    fn next(&mut self, input: f64) -> Self::Output {
        self.sum = if self.count < self.period {
            self.count = self.count + 1;
            self.sum + input
        } else {
            self.sum + input - self.deque[self.index]
        };

        self.deque[self.index] = input;
        self.index = if self.index + 1 < self.period {
            self.index + 1
        } else {
            0
        };

        let mean = self.sum / self.count as f64;

        let mut mad = 0.0;
        for value in &self.deque[..self.count] {
            mad += (value - mean).abs();
        }
        mad / self.count as f64
    }
}

impl<T: Close> Next<&T> for MeanAbsoluteDeviation {
    type Output = f64;

    fn next(&mut self, input: &T) -> Self::Output {
        self.next(input.close())
    }
}

impl Reset for MeanAbsoluteDeviation {
    fn reset(&mut self) {
        self.index = 0;
        self.count = 0;
        self.sum = 0.0;
        for i in 0..self.period {
            self.deque[i] = 0.0;
        }
    }
}

impl Default for MeanAbsoluteDeviation {
    fn default() -> Self {
        Self::new(9).unwrap()
    }
}

impl fmt::Display for MeanAbsoluteDeviation {
    fn fmt(&self, f: &mut fmt::Formatter) -> fmt::Result {
        write!(f, "MAD({})", self.period)
    }
}

#[cfg(test)]
mod tests {
    use super::*;
    use crate::test_helper::*;

    test_indicator!(MeanAbsoluteDeviation);

    #[test]
    fn test_new() {
        assert!(MeanAbsoluteDeviation::new(0).is_err());
        assert!(MeanAbsoluteDeviation::new(1).is_ok());
    }

    #[test]
    fn test_next() {
        let mut mad = MeanAbsoluteDeviation::new(5).unwrap();

        assert_eq!(round(mad.next(1.5)), 0.0);
        assert_eq!(round(mad.next(4.0)), 1.25);
        assert_eq!(round(mad.next(8.0)), 2.333);
        assert_eq!(round(mad.next(4.0)), 1.813);
        assert_eq!(round(mad.next(4.0)), 1.48);
        assert_eq!(round(mad.next(1.5)), 1.48);
    }

    #[test]
    fn test_reset() {
        let mut mad = MeanAbsoluteDeviation::new(5).unwrap();

        assert_eq!(round(mad.next(1.5)), 0.0);
        assert_eq!(round(mad.next(4.0)), 1.25);

        mad.reset();

        assert_eq!(round(mad.next(1.5)), 0.0);
        assert_eq!(round(mad.next(4.0)), 1.25);
    }

    #[test]
    fn test_default() {
        MeanAbsoluteDeviation::default();
    }

    #[test]
    fn test_display() {
        let indicator = MeanAbsoluteDeviation::new(10).unwrap();
        assert_eq!(format!("{}", indicator), "MAD(10)");
    }
}
