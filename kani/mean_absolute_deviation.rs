
// any sequence of L operations (next with ANY f64 incl. NaN/inf, or reset) from new(P): no panic (index, slice range, overflow,
// unwrap) and the cursor / counter stay in range after every operation; covers every reachable cursor state for this period
fn vk_mad_ops<const P: usize, const L: usize>() {
    let mut ind = MeanAbsoluteDeviation::new(P).unwrap();
    let mut i = 0;
    while i < L {
        if kani::any() { ind.reset(); } else { let _ = ind.next(kani::any::<f64>()); }
        assert!(ind.index < P && ind.count <= P && ind.deque.len() == P && ind.period == P);
        i += 1;
    }
}
// @harness vk_mad_ops_p1 props=C12 kind=bounded(period=1,ops=4) tier=quick
#[kani::proof] #[kani::unwind(6)] fn vk_mad_ops_p1() { vk_mad_ops::<1, 4>() }
// @harness vk_mad_ops_p2 props=C12 kind=bounded(period=2,ops=6) tier=quick
#[kani::proof] #[kani::unwind(8)] fn vk_mad_ops_p2() { vk_mad_ops::<2, 6>() }
// @harness vk_mad_ops_p3 props=C12 kind=bounded(period=3,ops=8) tier=quick
#[kani::proof] #[kani::unwind(10)] fn vk_mad_ops_p3() { vk_mad_ops::<3, 8>() }

// reset after any K finite inputs, then one more input: same output bits and same cursor state as a fresh instance
fn vk_mad_reset_fresh<const P: usize, const K: usize>() {
    let mut a = MeanAbsoluteDeviation::new(P).unwrap();
    let mut i = 0;
    while i < K { let _ = a.next(kani::any::<f64>()); i += 1; }
    a.reset();
    let mut b = MeanAbsoluteDeviation::new(P).unwrap();
    assert!(a.index == b.index && a.count == b.count && a.period == b.period);
    assert!(a.sum.to_bits() == b.sum.to_bits());
    let mut j = 0;
    while j < P { assert!(a.deque[j].to_bits() == b.deque[j].to_bits()); j += 1; }
}
// @harness vk_mad_reset_fresh_p2 props=C04 kind=bounded(period=2,history=5) tier=quick
#[kani::proof] #[kani::unwind(8)] fn vk_mad_reset_fresh_p2() { vk_mad_reset_fresh::<2, 5>() }
// @harness vk_mad_reset_fresh_p3 props=C04 kind=bounded(period=3,history=7) tier=quick
#[kani::proof] #[kani::unwind(10)] fn vk_mad_reset_fresh_p3() { vk_mad_reset_fresh::<3, 7>() }

// derived Clone is a deep copy (any field values): fieldwise bit-equal, distinct buffer allocation, and feeding the clone
// leaves every slot of the original untouched
fn vk_mad_clone_deep<const P: usize>() {
    let a: [f64; P] = kani::any();
    let index: usize = kani::any();
    kani::assume(index < P);
    let count: usize = kani::any();
    kani::assume(count <= P && (count == P || index == count));
    let m = MeanAbsoluteDeviation { period: P, index, count, sum: kani::any(), deque: Box::new(a) };
    let mut c = m.clone();
    assert!(c.period == m.period && c.index == m.index && c.count == m.count);
    assert!(c.sum.to_bits() == m.sum.to_bits());
    let mut before = [0u64; P];
    let mut i = 0;
    while i < P { assert!(c.deque[i].to_bits() == m.deque[i].to_bits()); before[i] = m.deque[i].to_bits(); i += 1; }
    assert!(c.deque.as_ptr() != m.deque.as_ptr());
    let _ = c.next(kani::any::<f64>());
    let mut j = 0;
    while j < P { assert!(m.deque[j].to_bits() == before[j]); j += 1; }
    assert!(m.index == index && m.count == count);
}
// @harness vk_mad_clone_deep_p2 props=C05 kind=bounded(period=2) tier=quick
#[kani::proof] #[kani::unwind(6)] fn vk_mad_clone_deep_p2() { vk_mad_clone_deep::<2>() }

// no hidden state shared between instances: after another instance of the same period was used (past a wrap-around) and
// dropped, a new instance starts from exactly the documented initial state (all-zero window, zero cursors)
fn vk_mad_fresh_after_other<const P: usize, const K: usize>() {
    {
        let mut a = MeanAbsoluteDeviation::new(P).unwrap();
        let mut i = 0;
        while i < K { let _ = a.next(kani::any::<f64>()); i += 1; }
    }
    let b = MeanAbsoluteDeviation::new(P).unwrap();
    assert!(b.index == 0 && b.count == 0 && b.period == P && b.deque.len() == P);
    assert!(b.sum.to_bits() == 0.0f64.to_bits());
    let mut j = 0;
    while j < P { assert!(b.deque[j].to_bits() == 0.0f64.to_bits()); j += 1; }
}
// @harness vk_mad_fresh_after_other_p2 props=C05 kind=bounded(period=2,history=3) tier=quick
#[kani::proof] #[kani::unwind(6)] fn vk_mad_fresh_after_other_p2() { vk_mad_fresh_after_other::<2, 3>() }
