fn vk3_ref_ema(hist: &[f64], t: usize, n: usize) -> f64 {
    let alpha = 2.0 / (n as f64 + 1.0);
    let mut e = hist[0];
    let mut j = 1;
    while j <= t { e = alpha * hist[j] + (1.0 - alpha) * e; j += 1; }
    e
}
struct Vk3Bar { h: f64, l: f64, c: f64, v: f64 }
impl High for Vk3Bar { fn high(&self) -> f64 { self.h } }
impl Low for Vk3Bar { fn low(&self) -> f64 { self.l } }
impl Close for Vk3Bar { fn close(&self) -> f64 { self.c } }
impl Volume for Vk3Bar { fn volume(&self) -> f64 { self.v } }
fn vk3_m3() -> f64 { let v: u8 = kani::any(); kani::assume(v <= 3); (v as f64) * 3.0 }      // 0, 3, 6, 9
fn vk3_bar() -> Vk3Bar { let v: u8 = kani::any(); kani::assume(v <= 3); Vk3Bar { h: vk3_m3(), l: vk3_m3(), c: vk3_m3(), v: v as f64 } }
fn vk3_max3(a: f64, b: f64, c: f64) -> f64 { let m = if a >= b { a } else { b }; if m >= c { m } else { c } }

// ChandelierExit on bars: long = Maximum_n(high) - multiplier*ATR_n, short = Minimum_n(low) + multiplier*ATR_n,
// ATR = EMA of max(high-low, |high-prev close|, |low-prev close|) (high-low on the first bar)
fn vk_ce_matches_reference<const P: usize, const K: usize>() {
    let mult = 3.0;
    let mut ind = ChandelierExit::new(P, mult).unwrap();
    let mut highs = [0.0f64; K];
    let mut lows = [0.0f64; K];
    let mut trs = [0.0f64; K];
    let mut prev_close = 0.0;
    let mut t = 0;
    while t < K {
        let b = vk3_bar();
        highs[t] = b.h; lows[t] = b.l;
        trs[t] = if t == 0 { b.h - b.l } else { vk3_max3(b.h - b.l, (b.h - prev_close).abs(), (b.l - prev_close).abs()) };
        prev_close = b.c;
        let out = ind.next(&b);
        let n = if t + 1 < P { t + 1 } else { P };
        let lo = t + 1 - n;
        let (mut mx, mut mn) = (highs[lo], lows[lo]);
        let mut j = lo;
        while j <= t { if highs[j] > mx { mx = highs[j]; } if lows[j] < mn { mn = lows[j]; } j += 1; }
        let atr = vk3_ref_ema(&trs, t, P) * mult;
        assert!(out.long == mx - atr && out.short == mn + atr);
        t += 1;
    }
}
// @harness vk_ce_matches_reference_p2 props=C02,C09,C15 kind=bounded(period=2,steps=3) tier=thorough
#[kani::proof] #[kani::unwind(6)] fn vk_ce_matches_reference_p2() { vk_ce_matches_reference::<2, 3>() }
