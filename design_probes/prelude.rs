#![feature(allocator_api)]
#![allow(unused_imports)]
use vstd::prelude::*;
use vstd::std_specs::ops::*;
use vstd::std_specs::cmp::*;
verus! {
pub uninterp spec fn rv(x: f64) -> real;
pub uninterp spec fn fin(x: f64) -> bool;
pub broadcast axiom fn ax_add_req(a: f64, b: f64) ensures #[trigger] a.add_req(b);
pub broadcast axiom fn ax_sub_req(a: f64, b: f64) ensures #[trigger] a.sub_req(b);
pub broadcast axiom fn ax_mul_req(a: f64, b: f64) ensures #[trigger] a.mul_req(b);
pub broadcast axiom fn ax_div_req(a: f64, b: f64) ensures #[trigger] a.div_req(b);
#[verifier::allow(broadcast_without_trigger)]
pub broadcast axiom fn ax_obeys()
    ensures <f64 as AddSpec>::obeys_add_spec(), <f64 as SubSpec>::obeys_sub_spec(), <f64 as DivSpec>::obeys_div_spec(), <f64 as MulSpec>::obeys_mul_spec(),
       <f64 as PartialOrdSpec>::obeys_partial_cmp_spec(), <f64 as PartialEqSpec>::obeys_eq_spec();
pub broadcast axiom fn ax_add_val(a: f64, b: f64)
    ensures fin(a) && fin(b) ==> fin(#[trigger] a.add_spec(b)) && rv(a.add_spec(b)) == rv(a) + rv(b);
pub broadcast axiom fn ax_sub_val(a: f64, b: f64)
    ensures fin(a) && fin(b) ==> fin(#[trigger] a.sub_spec(b)) && rv(a.sub_spec(b)) == rv(a) - rv(b);
pub broadcast axiom fn ax_mul_val(a: f64, b: f64)
    ensures fin(a) && fin(b) ==> fin(#[trigger] a.mul_spec(b)) && rv(a.mul_spec(b)) == rv(a) * rv(b);
pub broadcast axiom fn ax_div_val(a: f64, b: f64)
    ensures fin(a) && fin(b) && rv(b) != 0real ==> fin(#[trigger] a.div_spec(b)) && rv(a.div_spec(b)) == rv(a) / rv(b);
pub broadcast axiom fn ax_cmp_val(a: f64, b: f64)
    ensures 
        fin(a) && fin(b) ==> (#[trigger] a.partial_cmp_spec(&b)) == 
           (if rv(a) < rv(b) { Some(core::cmp::Ordering::Less) } else if rv(a) > rv(b) { Some(core::cmp::Ordering::Greater) } else { Some(core::cmp::Ordering::Equal) });
pub broadcast axiom fn ax_eq_val(a: f64, b: f64)
    ensures fin(a) && fin(b) ==> (#[trigger] a.eq_spec(&b)) == (rv(a) == rv(b));
pub broadcast group f64_axioms { ax_add_req, ax_sub_req, ax_mul_req, ax_div_req, ax_obeys, ax_add_val, ax_sub_val, ax_mul_val, ax_div_val, ax_cmp_val, ax_eq_val }

pub axiom fn ax_lit_0() ensures fin(0.0f64), rv(0.0f64) == 0real;
pub axiom fn ax_lit_1() ensures fin(1.0f64), rv(1.0f64) == 1real;
pub axiom fn ax_lit_2() ensures fin(2.0f64), rv(2.0f64) == 2real;
pub axiom fn ax_lit_3() ensures fin(3.0f64), rv(3.0f64) == 3real;
pub axiom fn ax_lit_50() ensures fin(50.0f64), rv(50.0f64) == 50real;
pub axiom fn ax_lit_100() ensures fin(100.0f64), rv(100.0f64) == 100real;

#[verifier::external_body]
pub fn usize_as_f64(n: usize) -> (r: f64) ensures fin(r), rv(r) == n as real { n as f64 }

pub assume_specification<T, A: std::alloc::Allocator> [std::vec::Vec::<T, A>::into_boxed_slice] (v: std::vec::Vec<T, A>) -> (r: std::boxed::Box<[T], A>)
   ensures r@ == v@;

// ---------- ring buffer theory (pure spec, no trusted parts) ----------
pub open spec fn seq_sum(s: Seq<f64>) -> real decreases s.len() {
    if s.len() == 0 { 0real } else { seq_sum(s.drop_last()) + rv(s.last()) }
}
pub open spec fn all_fin(s: Seq<f64>) -> bool { forall|i: int| 0 <= i < s.len() ==> fin(#[trigger] s[i]) }

pub open spec fn ring_ok(d: Seq<f64>, index: int, count: int) -> bool {
    &&& d.len() >= 1 && 0 <= index < d.len() && 0 <= count <= d.len()
    &&& (count < d.len() ==> index == count)
}
pub open spec fn ring_win(d: Seq<f64>, index: int, count: int) -> Seq<f64> {
    if count < d.len() { d.subrange(0, count) } else { d.subrange(index, d.len() as int) + d.subrange(0, index) }
}
pub open spec fn push_trunc(w: Seq<f64>, x: f64, n: int) -> Seq<f64> {
    if w.len() < n { w.push(x) } else { w.subrange(1, w.len() as int).push(x) }
}
pub open spec fn next_index(index: int, n: int) -> int { if index + 1 < n { index + 1 } else { 0 } }
pub open spec fn next_count(count: int, n: int) -> int { if count < n { count + 1 } else { count } }

pub proof fn lemma_ring_step(d: Seq<f64>, index: int, count: int, x: f64)
    requires ring_ok(d, index, count)
    ensures 
        ring_ok(d.update(index, x), next_index(index, d.len() as int), next_count(count, d.len() as int)),
        ring_win(d.update(index, x), next_index(index, d.len() as int), next_count(count, d.len() as int))
            =~= push_trunc(ring_win(d, index, count), x, d.len() as int),
        ring_win(d, index, count).len() == count,
        count == d.len() ==> ring_win(d, index, count)[0] == d[index],
{
}

pub proof fn lemma_sum_push(s: Seq<f64>, x: f64)
    ensures seq_sum(s.push(x)) == seq_sum(s) + rv(x)
{
    assert(s.push(x).drop_last() =~= s);
}
pub proof fn lemma_sum_drop_first(s: Seq<f64>)
    requires s.len() >= 1
    ensures seq_sum(s.subrange(1, s.len() as int)) == seq_sum(s) - rv(s[0])
    decreases s.len()
{
    if s.len() == 1 {
        assert(s.drop_last() =~= Seq::<f64>::empty());
        assert(s.subrange(1, 1) =~= Seq::<f64>::empty());
    } else {
        lemma_sum_drop_first(s.drop_last());
        assert(s.subrange(1, s.len() as int).drop_last() =~= s.drop_last().subrange(1, s.len() - 1));
    }
}
pub proof fn lemma_sum_zeros(s: Seq<f64>)
    requires forall|i: int| 0 <= i < s.len() ==> rv(#[trigger] s[i]) == 0real
    ensures seq_sum(s) == 0real
    decreases s.len()
{
    if s.len() > 0 { lemma_sum_zeros(s.drop_last()); }
}
}
