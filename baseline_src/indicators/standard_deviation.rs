use std::fmt;

use crate::errors::{Result, TaError};
use crate::{Close, Next, Period, Reset};
#[cfg(feature = "serde")]
use serde::{Deserialize, Serialize};

/// Standard deviation (SD).
///
/// Returns the standard deviation of the last n values.
///
/// # Formula
///
/// ![SD formula](https://wikimedia.org/api/rest_v1/media/math/render/svg/2845de27edc898d2a2a4320eda5f57e0dac6f650)
///
/// Where:
///
/// * _σ_ - value of standard deviation for N given probes.
/// * _N_ - number of probes in observation.
/// * _x<sub>i</sub>_ - i-th observed value from N elements observation.
///
/// # Parameters
///
/// * _period_ - number of periods (integer greater than 0)
///
/// # Example
///
/// ```
/// use ta::indicators::StandardDeviation;
/// use ta::Next;
///
/// let mut sd = StandardDeviation::new(3).unwrap();
/// assert_eq!(sd.next(10.0), 0.0);
/// assert_eq!(sd.next(20.0), 5.0);
/// ```
///
/// # Links
///
/// * [Standard Deviation, Wikipedia](https://en.wikipedia.org/wiki/Standard_deviation)
///
#[doc(alias = "SD")]
#[cfg_attr(feature = "serde", derive(Serialize, Deserialize))]
#[derive(Debug, Clone)]
pub struct StandardDeviation {
    period: usize,
    index: usize,
    count: usize,
    m: f64,
    m2: f64,
    deque: Box<[f64]>,
}

impl StandardDeviation {
    pub fn new(period: usize) -> Result<Self> {
        match period {
            0 => Err(TaError::InvalidParameter),
            _ => Ok(Self {
                period,
                index: 0,
                count: 0,
                m: 0.0,
                m2: 0.0,
                deque: vec![0.0; period].into_boxed_slice(),
            }),
        }
    }

    pub(super) fn mean(&self) -> f64 {
        self.m
    }
}

impl Period for StandardDeviation {
    fn period(&self) -> usize {
        self.period
    }
}

impl Next<f64> for StandardDeviation {
    type Output = f64;

    fn next(&mut self, input: f64) -> Self::Output {
        let old_val = self.deque[self.index];
        self.deque[self.index] = input;

        self.index = if self.index + 1 < self.period {
            self.index + 1
        } else {
            0
        };

        if self.count < self.period {
            self.count += 1;
            let delta = input - self.m;
            self.m += delta / self.count as f64;
            let delta2 = input - self.m;
            self.m2 += delta * delta2;
        } else {
            let delta = input - old_val;
            let old_m = self.m;
            self.m += delta / self.period as f64;
            let delta2 = input - self.m + old_val - old_m;
            self.m2 += delta * delta2;
        }
        if self.m2 < 0.0 {
            self.m2 = 0.0;
        }

        (self.m2 / self.count as f64).sqrt()
    }
}

impl<T: Close> Next<&T> for StandardDeviation {
    type Output = f64;

    fn next(&mut self, input: &T) -> Self::Output {
        self.next(input.close())
    }
}

impl Reset for StandardDeviation {
    fn reset(&mut self) {
        self.index = 0;
        self.count = 0;
        self.m = 0.0;
        self.m2 = 0.0;
        for i in 0..self.period {
            self.deque[i] = 0.0;
        }
    }
}

impl Default for StandardDeviation {
    fn default() -> Self {
        Self::new(9).unwrap()
    }
}

impl fmt::Display for StandardDeviation {
    fn fmt(&self, f: &mut fmt::Formatter) -> fmt::Result {
        write!(f, "SD({})", self.period)
    }
}

#[cfg(test)]
mod tests {
    use super::*;
    use crate::test_helper::*;

    test_indicator!(StandardDeviation);

    #[test]
    fn test_new() {
        assert!(StandardDeviation::new(0).is_err());
        assert!(StandardDeviation::new(1).is_ok());
    }

    #[test]
    fn test_next() {
        let mut sd = StandardDeviation::new(4).unwrap();
        assert_eq!(sd.next(10.0), 0.0);
        assert_eq!(sd.next(20.0), 5.0);
        assert_eq!(round(sd.next(30.0)), 8.165);
        assert_eq!(round(sd.next(20.0)), 7.071);
        assert_eq!(round(sd.next(10.0)), 7.071);
        assert_eq!(round(sd.next(100.0)), 35.355);
    }

    #[test]
    fn test_next_floating_point_error() {
        let mut sd = StandardDeviation::new(6).unwrap();
        assert_eq!(sd.next(1.872), 0.0);
        assert_eq!(round(sd.next(1.0)), 0.436);
        assert_eq!(round(sd.next(1.0)), 0.411);
        assert_eq!(round(sd.next(1.0)), 0.378);
        assert_eq!(round(sd.next(1.0)), 0.349);
        assert_eq!(round(sd.next(1.0)), 0.325);
        assert_eq!(round(sd.next(1.0)), 0.0);
    }

    #[test]
    fn test_next_with_bars() {
        fn bar(close: f64) -> Bar {
            Bar::new().close(close)
        }

        let mut sd = StandardDeviation::new(4).unwrap();
        assert_eq!(sd.next(&bar(10.0)), 0.0);
        assert_eq!(sd.next(&bar(20.0)), 5.0);
        assert_eq!(round(sd.next(&bar(30.0))), 8.165);
        assert_eq!(round(sd.next(&bar(20.0))), 7.071);
        assert_eq!(round(sd.next(&bar(10.0))), 7.071);
        assert_eq!(round(sd.next(&bar(100.0))), 35.355);
    }

    #[test]
    fn test_next_same_values() {
        let mut sd = StandardDeviation::new(3).unwrap();
        assert_eq!(sd.next(4.2), 0.0);
        assert_eq!(sd.next(4.2), 0.0);
        assert_eq!(sd.next(4.2), 0.0);
        assert_eq!(sd.next(4.2), 0.0);
    }

    #[test]
    fn test_reset() {
        let mut sd = StandardDeviation::new(4).unwrap();
        assert_eq!(sd.next(10.0), 0.0);
        assert_eq!(sd.next(20.0), 5.0);
        assert_eq!(round(sd.next(30.0)), 8.165);

        sd.reset();
        assert_eq!(sd.next(20.0), 0.0);
    }

    #[test]
    fn test_default() {
        StandardDeviation::default();
    }

    #[test]
    fn test_display() {
        let sd = StandardDeviation::new(5).unwrap();
        assert_eq!(format!("{}", sd), "SD(5)");
    }
}
