#[cfg(kani)]
mod verif_kani {
    use super::*;
    fn opt() -> Option<f64> { if kani::any() { Some(kani::any()) } else { None } }
    #[kani::proof]
    fn build_matches_spec() {
        let b = DataItemBuilder { open: opt(), high: opt(), low: opt(), close: opt(), volume: opt() };
        let (o,h,l,c,v) = (b.open, b.high, b.low, b.close, b.volume);
        let r = b.build();
        let complete = o.is_some() && h.is_some() && l.is_some() && c.is_some() && v.is_some();
        if !complete {
            assert!(r == Err(TaError::DataItemIncomplete));
        } else {
            let (o,h,l,c,v) = (o.unwrap(),h.unwrap(),l.unwrap(),c.unwrap(),v.unwrap());
            let valid = l <= o && l <= c && l <= h && h >= o && h >= c && v >= 0.0;
            if valid {
                let it = r.unwrap();
                assert!(it.open().to_bits() == o.to_bits() && it.high().to_bits() == h.to_bits() && it.low().to_bits()==l.to_bits() && it.close().to_bits()==c.to_bits() && it.volume().to_bits()==v.to_bits());
                assert!(!o.is_nan() && !h.is_nan() && !l.is_nan() && !c.is_nan() && !v.is_nan());
            } else {
                assert!(r == Err(TaError::DataItemInvalid));
            }
        }
    }
}
#[cfg(kani)]
mod verif_kani2 {
    use super::*;
    #[kani::proof]
    fn build_wrong_claim() {
        let (o,h,l,c,v): (f64,f64,f64,f64,f64) = (kani::any(),kani::any(),kani::any(),kani::any(),kani::any());
        let r = DataItem::builder().open(o).high(h).low(l).close(c).volume(v).build();
        if r.is_ok() { assert!(v > 0.0); }
    }
}
