"""Algebra lane: polynomial side-lemmas over the reals.

contracts/alg.lem holds lemmas in a tiny DSL

    lemma NAME(v1, v2, ...)
      requires <cmp> [, <cmp>]*
      ensures  <cmp> [, <cmp>]*

where <cmp> is  <expr> (==|!=|<=|>=|<|>) <expr>  and <expr> uses + - * / ( ) integer literals and
the lemma's variables.  From the SAME parsed tree two texts are emitted:
  * Verus:  `pub axiom fn NAME(v1: real, ...) requires ... ensures ...;`   (used by the proofs)
  * SMT-LIB (QF_NRA): assert hypotheses, assert the negated conclusion; the lemma counts as discharged
    only if the solver answers `unsat`.
So inside Verus these are axioms, and outside they are proved by z3's nlsat (cross-checked by cvc5
in the thorough tier).  Reason: Verus' own nonlinear mode diverges on identities with > 3 variables.
"""
import os
import re
import subprocess
import tempfile
import time

TOK = re.compile(r'\s*(?:(\d+)|([A-Za-z_]\w*)|(==|!=|<=|>=|<|>|[-+*/(),]))')


class AlgError(Exception):
    pass


def tokenize(s):
    out = []
    i = 0
    s = s.strip()
    while i < len(s):
        m = TOK.match(s, i)
        if not m:
            raise AlgError('bad token at %r' % s[i:i + 20])
        if m.group(1):
            out.append(('num', m.group(1)))
        elif m.group(2):
            out.append(('id', m.group(2)))
        else:
            out.append(('op', m.group(3)))
        i = m.end()
    return out


class P:
    def __init__(self, toks, vars_):
        self.t, self.i, self.vars = toks, 0, vars_

    def peek(self):
        return self.t[self.i] if self.i < len(self.t) else (None, None)

    def eat(self, v=None):
        k = self.peek()
        if v is not None and k[1] != v:
            raise AlgError('expected %r got %r' % (v, k))
        self.i += 1
        return k

    def cmp(self):
        a = self.expr()
        k = self.eat()
        if k[1] not in ('==', '!=', '<=', '>=', '<', '>'):
            raise AlgError('expected comparison, got %r' % (k,))
        b = self.expr()
        return (k[1], a, b)

    def expr(self):
        a = self.term()
        while self.peek()[1] in ('+', '-'):
            op = self.eat()[1]
            a = (op, a, self.term())
        return a

    def term(self):
        a = self.unary()
        while self.peek()[1] in ('*', '/'):
            op = self.eat()[1]
            a = (op, a, self.unary())
        return a

    def unary(self):
        if self.peek()[1] == '-':
            self.eat()
            return ('-', ('num', '0'), self.unary())
        return self.atom()

    def atom(self):
        k = self.eat()
        if k[0] == 'num':
            return ('num', k[1])
        if k[0] == 'id':
            if k[1] not in self.vars:
                raise AlgError('unknown variable ' + k[1])
            return ('var', k[1])
        if k[1] == '(':
            e = self.expr()
            self.eat(')')
            return e
        raise AlgError('unexpected %r' % (k,))


def parse_cmps(text, vars_):
    out = []
    # split on commas at paren depth 0
    depth, cur = 0, ''
    for ch in text:
        if ch == '(':
            depth += 1
        elif ch == ')':
            depth -= 1
        if ch == ',' and depth == 0:
            if cur.strip():
                out.append(cur)
            cur = ''
        else:
            cur += ch
    if cur.strip():
        out.append(cur)
    res = []
    for c in out:
        p = P(tokenize(c), vars_)
        res.append(p.cmp())
        if p.i != len(p.t):
            raise AlgError('trailing tokens in %r' % c)
    return res


def parse(path):
    lemmas = []
    cur = None
    mode = None
    for raw in open(path):
        line = raw.split('#', 1)[0].rstrip()
        if not line.strip():
            continue
        m = re.match(r'lemma\s+(\w+)\s*\(([^)]*)\)\s*$', line.strip())
        if m:
            cur = {'name': m.group(1), 'vars': [v.strip() for v in m.group(2).split(',') if v.strip()], 'req': '', 'ens': ''}
            lemmas.append(cur)
            mode = None
            continue
        st = line.strip()
        if st.startswith('requires'):
            mode = 'req'
            st = st[len('requires'):]
        elif st.startswith('ensures'):
            mode = 'ens'
            st = st[len('ensures'):]
        if cur is None or mode is None:
            raise AlgError('text outside lemma: ' + raw)
        cur[mode] += ' ' + st
    for l in lemmas:
        l['req_t'] = parse_cmps(l['req'], l['vars'])
        l['ens_t'] = parse_cmps(l['ens'], l['vars'])
        if not l['ens_t']:
            raise AlgError('lemma %s has no ensures' % l['name'])
    return lemmas


def to_verus(e):
    k = e[0]
    if k == 'num':
        return e[1] + 'real'
    if k == 'var':
        return e[1]
    return '(%s %s %s)' % (to_verus(e[1]), k, to_verus(e[2]))


def to_smt(e):
    k = e[0]
    if k == 'num':
        return e[1] + '.0'
    if k == 'var':
        return e[1]
    if k == '!=':
        return '(not (= %s %s))' % (to_smt(e[1]), to_smt(e[2]))
    op = {'==': '='}.get(k, k)
    return '(%s %s %s)' % (op, to_smt(e[1]), to_smt(e[2]))


def verus_text(lemmas):
    out = ['// ---- generated by vlib/alg.py from contracts/alg.lem: axioms in Verus, discharged by z3 (QF_NRA) outside\n']
    for l in lemmas:
        s = 'pub axiom fn %s(%s)\n' % (l['name'], ', '.join('%s: real' % v for v in l['vars']))
        if l['req_t']:
            s += '    requires ' + ', '.join(to_verus(c) for c in l['req_t']) + ',\n'
        s += '    ensures ' + ', '.join(to_verus(c) for c in l['ens_t']) + ';\n'
        out.append(s)
    return ''.join(out)


def smt_text(l):
    s = '(set-logic QF_NRA)\n'
    for v in l['vars']:
        s += '(declare-const %s Real)\n' % v
    for c in l['req_t']:
        s += '(assert %s)\n' % to_smt(c)
    concl = [to_smt(c) for c in l['ens_t']]
    s += '(assert (not (and %s true)))\n(check-sat)\n' % ' '.join(concl)
    return s


def discharge(lemmas, solvers=(('z3', ['z3', '-T:60']),), vacuity=True):
    """-> list of dict(name, solver, result, time_s, vacuous)"""
    res = []
    d = tempfile.mkdtemp(prefix='taverif-alg-')
    try:
        for l in lemmas:
            p = os.path.join(d, l['name'] + '.smt2')
            open(p, 'w').write(smt_text(l))
            for sname, cmd in solvers:
                t0 = time.time()
                try:
                    r = subprocess.run(cmd + [p], capture_output=True, text=True, timeout=120)
                    ans = r.stdout.strip().split('\n')[0] if r.stdout.strip() else 'error: ' + r.stderr.strip()[:100]
                except subprocess.TimeoutExpired:
                    ans = 'timeout'
                rec = {'name': l['name'], 'solver': sname, 'result': ans, 'time_s': round(time.time() - t0, 3)}
                res.append(rec)
            if vacuity and l['req_t']:
                # hypotheses must be satisfiable
                pv = os.path.join(d, l['name'] + '.vac.smt2')
                s = '(set-logic QF_NRA)\n' + ''.join('(declare-const %s Real)\n' % v for v in l['vars'])
                s += ''.join('(assert %s)\n' % to_smt(c) for c in l['req_t']) + '(check-sat)\n'
                open(pv, 'w').write(s)
                r = subprocess.run(solvers[0][1] + [pv], capture_output=True, text=True)
                res[-1]['hyps_sat'] = r.stdout.strip().split('\n')[0]
        return res
    finally:
        import shutil
        shutil.rmtree(d, ignore_errors=True)
