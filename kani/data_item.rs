fn vk_opt() -> Option<f64> { if kani::any() { Some(kani::any()) } else { None } }
fn vk_bits(o: Option<f64>) -> Option<u64> { o.map(|x| x.to_bits()) }

// @harness vk_build_matches_spec props=C16 kind=complete tier=quick
// build() on arbitrary Option<f64>^5 (all 2^5 presence patterns x all f64 bit patterns): the tri-partition of the property
#[kani::proof]
fn vk_build_matches_spec() {
    let b = DataItemBuilder { open: vk_opt(), high: vk_opt(), low: vk_opt(), close: vk_opt(), volume: vk_opt() };
    let (o, h, l, c, v) = (b.open, b.high, b.low, b.close, b.volume);
    let r = b.build();
    let complete = o.is_some() && h.is_some() && l.is_some() && c.is_some() && v.is_some();
    kani::cover!(complete);
    kani::cover!(!complete);
    if !complete {
        assert!(r == Err(TaError::DataItemIncomplete));
    } else {
        let (o, h, l, c, v) = (o.unwrap(), h.unwrap(), l.unwrap(), c.unwrap(), v.unwrap());
        let valid = l <= o && l <= c && l <= h && h >= o && h >= c && v >= 0.0;
        kani::cover!(valid);
        kani::cover!(!valid);
        if valid {
            let it = r.unwrap();
            assert!(it.open().to_bits() == o.to_bits());
            assert!(it.high().to_bits() == h.to_bits());
            assert!(it.low().to_bits() == l.to_bits());
            assert!(it.close().to_bits() == c.to_bits());
            assert!(it.volume().to_bits() == v.to_bits());
            assert!(!o.is_nan() && !h.is_nan() && !l.is_nan() && !c.is_nan() && !v.is_nan());
            assert!(it.clone() == it);
        } else {
            assert!(r == Err(TaError::DataItemInvalid));
        }
    }
}

// @harness vk_setters_touch_one_field props=C16 kind=complete tier=quick
// each setter, from an arbitrary builder state: that field becomes Some(v) bit-exactly, the others are unchanged
// (hence setter order is irrelevant and the last call wins)
#[kani::proof]
fn vk_setters_touch_one_field() {
    let b = DataItemBuilder { open: vk_opt(), high: vk_opt(), low: vk_opt(), close: vk_opt(), volume: vk_opt() };
    let before = [vk_bits(b.open), vk_bits(b.high), vk_bits(b.low), vk_bits(b.close), vk_bits(b.volume)];
    let v: f64 = kani::any();
    let which: u8 = kani::any();
    kani::assume(which < 5);
    let a = match which { 0 => b.open(v), 1 => b.high(v), 2 => b.low(v), 3 => b.close(v), _ => b.volume(v) };
    let after = [vk_bits(a.open), vk_bits(a.high), vk_bits(a.low), vk_bits(a.close), vk_bits(a.volume)];
    let mut i = 0;
    while i < 5 {
        if i == which as usize { assert!(after[i] == Some(v.to_bits())); } else { assert!(after[i] == before[i]); }
        i += 1;
    }
}

// @harness vk_builder_starts_empty props=C16 kind=complete tier=quick
#[kani::proof]
fn vk_builder_starts_empty() {
    let b = DataItem::builder();
    assert!(b.open.is_none() && b.high.is_none() && b.low.is_none() && b.close.is_none() && b.volume.is_none());
    let c = DataItemBuilder::new();
    assert!(c.build() == Err(TaError::DataItemIncomplete));
}
