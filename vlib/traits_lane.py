"""Trait-solver lane (C19 only): generated static trait-bound assertions, type-checked by rustc against a scratch copy
of /repo with and without the `serde` feature.  Obligations here are trait obligations discharged by rustc's trait
solver, not SMT obligations (level: other)."""
import json
import os
import re
import shutil
import subprocess
import tempfile
import time

REPO = os.environ.get('VERIF_REPO', '/repo')

ALL = ['ExponentialMovingAverage', 'SimpleMovingAverage', 'WeightedMovingAverage', 'StandardDeviation', 'MeanAbsoluteDeviation',
       'RelativeStrengthIndex', 'Minimum', 'Maximum', 'FastStochastic', 'SlowStochastic', 'TrueRange', 'AverageTrueRange',
       'MovingAverageConvergenceDivergence', 'PercentagePriceOscillator', 'CommodityChannelIndex', 'EfficiencyRatio',
       'BollingerBands', 'ChandelierExit', 'KeltnerChannel', 'RateOfChange', 'MoneyFlowIndex', 'OnBalanceVolume']
NO_F64 = ['CommodityChannelIndex', 'ChandelierExit', 'MoneyFlowIndex', 'OnBalanceVolume']
PERIOD = ['ExponentialMovingAverage', 'SimpleMovingAverage', 'WeightedMovingAverage', 'StandardDeviation', 'MeanAbsoluteDeviation',
          'RelativeStrengthIndex', 'Minimum', 'Maximum', 'FastStochastic', 'AverageTrueRange', 'CommodityChannelIndex', 'EfficiencyRatio',
          'BollingerBands', 'ChandelierExit', 'KeltnerChannel', 'RateOfChange', 'MoneyFlowIndex']
OUTPUTS = [('MovingAverageConvergenceDivergenceOutput', '(f64, f64, f64)'), ('PercentagePriceOscillatorOutput', '(f64, f64, f64)'),
           ('ChandelierExitOutput', '(f64, f64)'), ('BollingerBandsOutput', None), ('KeltnerChannelOutput', None)]


def program(serde):
    L = []
    L.append('#![allow(dead_code, unused_imports)]')
    L.append('use ta::indicators::*;')
    L.append('use ta::{Close, DataItem, High, Low, Next, Open, Period, Reset, Volume};')
    L.append('use std::fmt::{Debug, Display};')
    L.append("fn surface<T: Clone + Debug + Display + Default + Reset + Send + Sync + Unpin + 'static>() {}")
    L.append('fn next_scalar<T: Next<f64>>() {}')
    L.append("fn next_bar<T: for<'a> Next<&'a DataItem>>() {}")
    L.append("fn next_user<T: for<'a> Next<&'a UserBar>>() {}")
    L.append('fn has_period<T: Period>() {}')
    L.append('fn output<T: Clone + Debug + PartialEq>() {}')
    L.append('fn converts<A: Into<B>, B>() {}')
    L.append("fn error_surface<T: std::error::Error + Clone + Eq + Send + Sync + 'static>() {}")
    L.append("fn data_item<T: Clone + Debug + PartialEq + Open + High + Low + Close + Volume + Send + Sync + 'static>() {}")
    if serde:
        L.append('fn serde_surface<T: serde::Serialize + serde::de::DeserializeOwned>() {}')
    NEED = {}
    for t in ('SimpleMovingAverage', 'ExponentialMovingAverage', 'WeightedMovingAverage', 'StandardDeviation', 'MeanAbsoluteDeviation',
              'RelativeStrengthIndex', 'MovingAverageConvergenceDivergence', 'PercentagePriceOscillator', 'EfficiencyRatio', 'BollingerBands', 'RateOfChange'):
        NEED[t] = ('UserC', ['Close'])
    NEED['Minimum'] = ('UserL', ['Low'])
    NEED['Maximum'] = ('UserH', ['High'])
    for t in ('FastStochastic', 'SlowStochastic', 'TrueRange', 'AverageTrueRange', 'KeltnerChannel', 'ChandelierExit', 'CommodityChannelIndex'):
        NEED[t] = ('UserHLC', ['High', 'Low', 'Close'])
    NEED['MoneyFlowIndex'] = ('UserHLCV', ['High', 'Low', 'Close', 'Volume'])
    NEED['OnBalanceVolume'] = ('UserCV', ['Close', 'Volume'])
    meth = {'Open': 'open', 'High': 'high', 'Low': 'low', 'Close': 'close', 'Volume': 'volume'}
    for ty, trs in sorted(set((v[0], tuple(v[1])) for v in NEED.values())):
        L.append('struct %s;' % ty)
        for tr in trs:
            L.append('impl %s for %s { fn %s(&self) -> f64 { 1.0 } }' % (tr, ty, meth[tr]))
        L.append("fn next_%s<T: for<'a> Next<&'a %s>>() {}" % (ty.lower(), ty))
    L.append('struct UserBar;')
    for tr, m in (('Open', 'open'), ('High', 'high'), ('Low', 'low'), ('Close', 'close'), ('Volume', 'volume')):
        L.append('impl %s for UserBar { fn %s(&self) -> f64 { 1.0 } }' % (tr, m))
    L.append('fn main() {')
    asserts = []

    def A(code, what):
        asserts.append((len(L) + 1, what))
        L.append('    ' + code)
    for t in ALL:
        A('surface::<%s>();' % t, '%s: Clone + Debug + Display + Default + Reset + Send + Sync + Unpin + \'static' % t)
        A('next_bar::<%s>();' % t, '%s: Next<&DataItem>' % t)
        A('next_user::<%s>();' % t, '%s: Next<&T> for a user type implementing the price traits' % t)
        A('next_%s::<%s>();' % (NEED[t][0].lower(), t), '%s: Next<&T> for a user type providing ONLY %s' % (t, ' + '.join(NEED[t][1])))
        if t not in NO_F64:
            A('next_scalar::<%s>();' % t, '%s: Next<f64>' % t)
        if t in PERIOD:
            A('has_period::<%s>();' % t, '%s: Period' % t)
        if serde:
            A('serde_surface::<%s>();' % t, '%s: Serialize + Deserialize (feature serde)' % t)
    for o, tup in OUTPUTS:
        A('output::<%s>();' % o, '%s: Clone + Debug + PartialEq' % o)
        if tup:
            A('converts::<%s, %s>();' % (o, tup), '%s: Into<%s>' % (o, tup))
    A('error_surface::<ta::errors::TaError>();', 'TaError: std Error + Clone + Eq + Send + Sync')
    A('data_item::<DataItem>();', 'DataItem: Clone + Debug + PartialEq + price traits + Send + Sync')
    if serde:
        A('serde_surface::<DataItem>();', 'DataItem: Serialize + Deserialize (feature serde)')
    L.append('}')
    return '\n'.join(L) + '\n', asserts


def run_one(serde):
    d = tempfile.mkdtemp(prefix='taverif-traits-')
    try:
        ta = os.path.join(d, 'ta')
        os.makedirs(ta)
        shutil.copytree(os.path.join(REPO, 'src'), os.path.join(ta, 'src'))
        for f in ('Cargo.toml', 'Cargo.lock', 'README.md'):
            if os.path.exists(os.path.join(REPO, f)):
                shutil.copy(os.path.join(REPO, f), os.path.join(ta, f))
        for sub in ('benches', 'examples', 'tests'):
            if os.path.isdir(os.path.join(REPO, sub)):
                shutil.copytree(os.path.join(REPO, sub), os.path.join(ta, sub))
        c = os.path.join(d, 'client')
        os.makedirs(os.path.join(c, 'src'))
        deps = 'ta = { path = "../ta"%s }\n' % (', features = ["serde"]' if serde else '')
        if serde:
            deps += 'serde = "1"\n'
        open(os.path.join(c, 'Cargo.toml'), 'w').write('[package]\nname = "ta_traits"\nversion = "0.0.0"\nedition = "2021"\n\n[dependencies]\n' + deps + '\n[workspace]\n')
        if os.path.exists(os.path.join(REPO, 'Cargo.lock')):
            shutil.copy(os.path.join(REPO, 'Cargo.lock'), os.path.join(c, 'Cargo.lock'))
        prog, asserts = program(serde)
        open(os.path.join(c, 'src', 'main.rs'), 'w').write(prog)
        env = dict(os.environ)
        env['CARGO_NET_OFFLINE'] = 'true'
        env['CARGO_TARGET_DIR'] = os.path.join(d, 'target')
        t0 = time.time()
        p = subprocess.run(['cargo', 'check', '--offline', '--message-format=json'], cwd=c, capture_output=True, text=True, env=env)
        wall = time.time() - t0
        failed = {}
        other_errors = []
        for line in p.stdout.splitlines():
            try:
                j = json.loads(line)
            except Exception:
                continue
            if j.get('reason') != 'compiler-message':
                continue
            m = j['message']
            if m.get('level') != 'error':
                continue
            hit = False
            if 'ta_traits' in j.get('package_id', '') or j.get('target', {}).get('name') == 'ta_traits':
                for sp in m.get('spans', []):
                    if sp.get('file_name', '').endswith('main.rs'):
                        failed.setdefault(sp['line_start'], []).append(m.get('rendered', m.get('message', ''))[:1500])
                        hit = True
            if not hit:
                other_errors.append(m.get('rendered', m.get('message', ''))[:800])
        return {'rc': p.returncode, 'wall_s': round(wall, 1), 'asserts': asserts, 'failed': failed, 'other_errors': other_errors, 'program': prog,
                'stderr_tail': p.stderr[-1500:]}
    finally:
        shutil.rmtree(d, ignore_errors=True)


def lane(pid, tier, cov, assumptions):
    import driver
    out = {'violations': [], 'undecided': []}
    total = ok = 0
    samples = []
    be = {}
    for serde in (False, True):
        r = run_one(serde)
        label = 'features=serde' if serde else 'default features'
        if r['rc'] != 0 and not r['failed']:
            out['undecided'].append('cargo check (%s) failed outside the assertion program: %s' % (label, (r['other_errors'] or [r['stderr_tail']])[0][:300]))
            continue
        for (line, what) in r['asserts']:
            total += 1
            if line in r['failed']:
                ob = 'traits::%s::%s' % ('serde' if serde else 'default', re.sub(r'[^A-Za-z0-9]+', '_', what)[:80])
                payload = {'property': pid, 'obligation': ob, 'lane': 'rustc-trait-solver', 'assertion': what, 'features': label,
                           'client_program_line': r['program'].split('\n')[line - 1].strip(), 'verifier_output': r['failed'][line][:3],
                           'counterexample': 'the generic use site on client_program_line does not type-check against the real crate',
                           'replay': 'python3 /verif/check.py C19'}
                path = driver.write_replay(pid, ob, payload)
                out['violations'].append((ob, path, True))
            else:
                ok += 1
                if len(samples) < 6 and (line % 17 == 0 or len(samples) < 2):
                    samples.append({'obligation': what, 'features': label})
        be[label] = {'assertions': len(r['asserts']), 'failed': len(r['failed']), 'wall_s': r['wall_s']}
    cov['obligations'] += total
    cov['discharged'] += ok
    cov['samples'] += samples
    cov['lanes'].append('rustc trait solver')
    cov['back_ends']['rustc trait solver (cargo check of a generated assertion program)'] = be
    cov['explanation'] = ('%d static trait-bound assertions (one generic use site per documented bound and per indicator, with and without the serde feature) '
                          'type-check against a scratch copy of /repo; decided by rustc\'s trait solver once and for all client programs requiring these bounds' % total)
    cov['checker_cmd'] = 'cargo check --offline (generated crate ta_traits, path dependency on a scratch copy of /repo), twice: default features and --features serde'
    cov['trusted_base'] = ['rustc type checker / trait solver', 'the generated assertion program (vlib/traits_lane.py) lists the documented bounds']
    assumptions.append('obligations are trait obligations discharged by rustc, not SMT obligations; thread-safety is Send + Sync as the type system sees it')
    return out
