#[cfg(kani)]
mod verif_kani {
    use super::*;
    #[kani::proof]
    #[kani::stub_verified(<ExponentialMovingAverage as Next<f64>>::next)]
    fn atr_nonneg_modular() {
        let prev: Option<f64> = if kani::any() { let p: f64 = kani::any(); kani::assume(p.is_finite()); Some(p) } else { None };
        let k: f64 = kani::any(); kani::assume(k > 0.0 && k <= 1.0);
        let cur: f64 = kani::any(); kani::assume(cur.is_finite());
        let mut atr = AverageTrueRange { true_range: TrueRange::new(), ema: ExponentialMovingAverage::new(3).unwrap() };
        let x: f64 = kani::any(); kani::assume(x.is_finite() && x.abs() < 1e300);
        let out = atr.next(x);
        assert!(!out.is_nan());
    }
}
