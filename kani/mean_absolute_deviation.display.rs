
// @harness vk_mad_display props=C11 kind=bounded(concrete-parameters) tier=thorough
// Display renders NAME(params): MAD(9) (concrete parameters only)
#[kani::proof]
#[kani::unwind(40)]
fn vk_mad_display() {
    let ind = MeanAbsoluteDeviation::new(9).unwrap();
    let s = format!("{}", ind);
    assert!(s == "MAD(9)");
}
