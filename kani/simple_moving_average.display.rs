
// @harness vk_sma_display props=C11 kind=bounded(concrete-parameters) tier=thorough
// Display renders NAME(params): SMA(9) (concrete parameters only)
#[kani::proof]
#[kani::unwind(40)]
fn vk_sma_display() {
    let ind = SimpleMovingAverage::new(9).unwrap();
    let s = format!("{}", ind);
    assert!(s == "SMA(9)");
}
