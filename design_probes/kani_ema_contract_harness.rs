#[cfg(kani)]
mod verif_kani {
    use super::*;
    #[kani::proof_for_contract(<ExponentialMovingAverage as Next<f64>>::next)]
    fn ema_next_contract() {
        let mut e = ExponentialMovingAverage { period: kani::any(), k: kani::any(), current: kani::any(), is_new: kani::any() };
        let x: f64 = kani::any();
        let _ = <ExponentialMovingAverage as Next<f64>>::next(&mut e, x);
    }
}
#[cfg(all(kani, feature = "serde"))]
mod verif_kani_serde {
    use super::*;
    #[kani::proof]
    #[kani::unwind(40)]
    fn ema_serde_roundtrip() {
        let e = ExponentialMovingAverage { period: kani::any(), k: kani::any(), current: kani::any(), is_new: kani::any() };
        let bytes = bincode::serialize(&e).unwrap();
        assert!(bytes.len() == 25);
        let d: ExponentialMovingAverage = bincode::deserialize(&bytes).unwrap();
        assert!(d.period == e.period && d.k.to_bits() == e.k.to_bits() && d.current.to_bits() == e.current.to_bits() && d.is_new == e.is_new);
    }
}
