use std::fmt;

use crate::errors::Result;
use crate::indicators::ExponentialMovingAverage as Ema;
use crate::{Close, Next, Period, Reset};
#[cfg(feature = "serde")]
use serde::{Deserialize, Serialize};

/// The relative strength index (RSI).
///
/// It is a momentum oscillator,
/// that compares the magnitude of recent gains
/// and losses over a specified time period to measure speed and change of price
/// movements of a security. It is primarily used to attempt to identify
/// overbought or oversold conditions in the trading of an asset.
///
/// The oscillator returns output in the range of 0..100.
///
/// ![RSI](https://upload.wikimedia.org/wikipedia/commons/6/67/RSIwiki.gif)
///
/// # Formula
///
/// RSI<sub>t</sub> = EMA<sub>Ut</sub> * 100 / (EMA<sub>Ut</sub> + EMA<sub>Dt</sub>)
///
/// Where:
///
/// * RSI<sub>t</sub> - value of RSI indicator in a moment of time _t_
/// * EMA<sub>Ut</sub> - value of [EMA](struct.ExponentialMovingAverage.html) of up periods in a moment of time _t_
/// * EMA<sub>Dt</sub> - value of [EMA](struct.ExponentialMovingAverage.html) of down periods in a moment of time _t_
///
/// If current period has value higher than previous period, than:
///
/// U = p<sub>t</sub> - p<sub>t-1</sub>
///
/// D = 0
///
/// Otherwise:
///
/// U = 0
///
/// D = p<sub>t-1</sub> - p<sub>t</sub>
///
/// Where:
///
/// * U = up period value
/// * D = down period value
/// * p<sub>t</sub> - input value in a moment of time _t_
/// * p<sub>t-1</sub> - input value in a moment of time _t-1_
///
/// # Parameters
///
/// * _period_ - number of periods (integer greater than 0). Default value is 14.
///
/// # Example
///
/// ```
/// use ta::indicators::RelativeStrengthIndex;
/// use ta::Next;
///
/// let mut rsi = RelativeStrengthIndex::new(3).unwrap();
/// assert_eq!(rsi.next(10.0), 50.0);
/// assert_eq!(rsi.next(10.5).round(), 86.0);
/// assert_eq!(rsi.next(10.0).round(), 35.0);
/// assert_eq!(rsi.next(9.5).round(), 16.0);
/// ```
///
/// # Links
/// * [Relative strength index (Wikipedia)](https://en.wikipedia.org/wiki/Relative_strength_index)
/// * [RSI (Investopedia)](http://www.investopedia.com/terms/r/rsi.asp)
///
#[doc(alias = "RSI")]
#[cfg_attr(feature = "serde", derive(Serialize, Deserialize))]
#[derive(Debug, Clone)]
pub struct RelativeStrengthIndex {
    period: usize,
    up_ema_indicator: Ema,
    down_ema_indicator: Ema,
    prev_val: f64,
    is_new: bool,
}

impl RelativeStrengthIndex {
    pub fn new(period: usize) -> Result<Self> {
        Ok(Self {
            period,
            up_ema_indicator: Ema::new(period)?,
            down_ema_indicator: Ema::new(period)?,
            prev_val: 0.0,
            is_new: true,
        })
    }
}

impl Period for RelativeStrengthIndex {
    fn period(&self) -> usize {
        self.period
    }
}

impl Next<f64> for RelativeStrengthIndex {
    type Output = f64;

    fn next(&mut self, input: f64) -> Self::Output {
        let mut up = 0.0;
        let mut down = 0.0;

        if self.is_new {
            self.is_new = false;
            // Initialize with some small seed numbers to avoid division by zero
            up = 0.1;
            down = 0.1;
        } else {
            if input > self.prev_val {
                up = input - self.prev_val;
            } else {
                down = self.prev_val - input;
            }
        }

        self.prev_val = input;
        let up_ema = self.up_ema_indicator.next(up);
        let down_ema = self.down_ema_indicator.next(down);
        if up_ema + down_ema == 0.0 {
            // Neither gains nor losses left in the averages: neutral value, avoid 0/0
            return 50.0;
        }
        100.0 * up_ema / (up_ema + down_ema)
    }
}

impl<T: Close> Next<&T> for RelativeStrengthIndex {
    type Output = f64;

    fn next(&mut self, input: &T) -> Self::Output {
        self.next(input.close())
    }
}

impl Reset for RelativeStrengthIndex {
    fn reset(&mut self) {
        self.is_new = true;
        self.prev_val = 0.0;
        self.up_ema_indicator.reset();
        self.down_ema_indicator.reset();
    }
}

impl Default for RelativeStrengthIndex {
    fn default() -> Self {
        Self::new(14).unwrap()
    }
}

impl fmt::Display for RelativeStrengthIndex {
    fn fmt(&self, f: &mut fmt::Formatter) -> fmt::Result {
        write!(f, "RSI({})", self.period)
    }
}

#[cfg(test)]
mod tests {
    use super::*;
    use crate::test_helper::*;

    test_indicator!(RelativeStrengthIndex);

    #[test]
    fn test_new() {
        assert!(RelativeStrengthIndex::new(0).is_err());
        assert!(RelativeStrengthIndex::new(1).is_ok());
    }

    #[test]
    fn test_next() {
        let mut rsi = RelativeStrengthIndex::new(3).unwrap();
        assert_eq!(rsi.next(10.0), 50.0);
        assert_eq!(rsi.next(10.5).round(), 86.0);
        assert_eq!(rsi.next(10.0).round(), 35.0);
        assert_eq!(rsi.next(9.5).round(), 16.0);
    }

    #[test]
    fn test_reset() {
        let mut rsi = RelativeStrengthIndex::new(3).unwrap();
        assert_eq!(rsi.next(10.0), 50.0);
        assert_eq!(rsi.next(10.5).round(), 86.0);

        rsi.reset();
        assert_eq!(rsi.next(10.0).round(), 50.0);
        assert_eq!(rsi.next(10.5).round(), 86.0);
    }

    #[test]
    fn test_default() {
        RelativeStrengthIndex::default();
    }

    #[test]
    fn test_display() {
        let rsi = RelativeStrengthIndex::new(16).unwrap();
        assert_eq!(format!("{}", rsi), "RSI(16)");
    }
}
