
// @harness vk_er_display props=C11 kind=bounded(concrete-parameters) tier=thorough
// Display renders NAME(params): ER(14) (concrete parameters only)
#[kani::proof]
#[kani::unwind(40)]
fn vk_er_display() {
    let ind = EfficiencyRatio::new(14).unwrap();
    let s = format!("{}", ind);
    assert!(s == "ER(14)");
}
