use std::fmt;

use crate::helpers::max3;
use crate::{Close, High, Low, Next, Reset};
#[cfg(feature = "serde")]
use serde::{Deserialize, Serialize};

/// The range of a day's trading is simply _high_ - _low_.
/// The true range extends it to yesterday's closing price if it was outside of today's range.
///
/// The true range is the largest of one the following:
///
/// * Most recent period's high minus the most recent period's low
/// * Absolute value of the most recent period's high minus the previous close
/// * Absolute value of the most recent period's low minus the previous close
///
/// # Formula
///
/// TR = max[(high - low), abs(high - close<sub>prev</sub>), abs(low - close<sub>prev</sub>)]
///
/// # Example
///
/// ```
/// extern crate ta;
/// #[macro_use] extern crate assert_approx_eq;
///
/// use ta::{Next, DataItem};
/// use ta::indicators::TrueRange;
///
/// fn main() {
///     let data = vec![
///         // open, high, low, close, tr
///         (9.7   , 10.0, 9.0, 9.5  , 1.0),  // tr = high - low = 10.0 - 9.0 = 1.0
///         (9.9   , 10.4, 9.8, 10.2 , 0.9),  // tr = high - prev_close = 10.4 - 9.5 = 0.9
///         (10.1  , 10.7, 9.4, 9.7  , 1.3),  // tr = high - low = 10.7 - 9.4 = 1.3
///         (9.1   , 9.2 , 8.1, 8.4  , 1.6),  // tr = prev_close - low = 9.7 - 8.1 = 1.6
///     ];
///     let mut indicator = TrueRange::new();
///
///     for (open, high, low, close, tr) in data {
///         let di = DataItem::builder()
///             .high(high)
///             .low(low)
///             .close(close)
///             .open(open)
///             .volume(1000.0)
///             .build().unwrap();
///         assert_approx_eq!(indicator.next(&di), tr);
///     }
/// }
/// ```
#[cfg_attr(feature = "serde", derive(Serialize, Deserialize))]
#[derive(Debug, Clone)]
pub struct TrueRange {
    prev_close: Option<f64>,
}

impl TrueRange {
    pub fn new() -> Self {
        Self { prev_close: None }
    }
}

impl Default for TrueRange {
    fn default() -> Self {
        Self::new()
    }
}

impl fmt::Display for TrueRange {
    fn fmt(&self, f: &mut fmt::Formatter) -> fmt::Result {
        write!(f, "TRUE_RANGE()")
    }
}

impl Next<f64> for TrueRange {
    type Output = f64;

    fn next(&mut self, input: f64) -> Self::Output {
        let distance = match self.prev_close {
            Some(prev) => (input - prev).abs(),
            None => 0.0,
        };
        self.prev_close = Some(input);
        distance
    }
}

impl<T: High + Low + Close> Next<&T> for TrueRange {
    type Output = f64;

    fn next(&mut self, bar: &T) -> Self::Output {
        let max_dist = match self.prev_close {
            Some(prev_close) => {
                let dist1 = bar.high() - bar.low();
                let dist2 = (bar.high() - prev_close).abs();
                let dist3 = (bar.low() - prev_close).abs();
                max3(dist1, dist2, dist3)
            }
            None => bar.high() - bar.low(),
        };
        self.prev_close = Some(bar.close());
        max_dist
    }
}

impl Reset for TrueRange {
    fn reset(&mut self) {
        self.prev_close = None;
    }
}

#[cfg(test)]
mod tests {
    use super::*;
    use crate::test_helper::*;

    test_indicator!(TrueRange);

    #[test]
    fn test_next_f64() {
        let mut tr = TrueRange::new();
        assert_eq!(round(tr.next(2.5)), 0.0);
        assert_eq!(round(tr.next(3.6)), 1.1);
        assert_eq!(round(tr.next(3.3)), 0.3);
    }

    #[test]
    fn test_next_bar() {
        let mut tr = TrueRange::new();

        let bar1 = Bar::new().high(10).low(7.5).close(9);
        let bar2 = Bar::new().high(11).low(9).close(9.5);
        let bar3 = Bar::new().high(9).low(5).close(8);

        assert_eq!(tr.next(&bar1), 2.5);
        assert_eq!(tr.next(&bar2), 2.0);
        assert_eq!(tr.next(&bar3), 4.5);
    }

    #[test]
    fn test_reset() {
        let mut tr = TrueRange::new();

        let bar1 = Bar::new().high(10).low(7.5).close(9);
        let bar2 = Bar::new().high(11).low(9).close(9.5);

        tr.next(&bar1);
        tr.next(&bar2);

        tr.reset();
        let bar3 = Bar::new().high(60).low(15).close(51);
        assert_eq!(tr.next(&bar3), 45.0);
    }

    #[test]
    fn test_default() {
        TrueRange::default();
    }

    #[test]
    fn test_display() {
        let indicator = TrueRange::new();
        assert_eq!(format!("{}", indicator), "TRUE_RANGE()");
    }
}
