// Indicator traits
//

/// Resets an indicator to the initial state.
pub trait Reset {
    fn reset(&mut self);
}

/// Return the period used by the indicator.
pub trait Period {
    fn period(&self) -> usize;
}

/// Consumes a data item of type `T` and returns `Output`.
///
/// Typically `T` can be `f64` or a struct similar to [DataItem](struct.DataItem.html), that implements
/// traits necessary to calculate value of a particular indicator.
///
/// In most cases `Output` is `f64`, but sometimes it can be different. For example for
/// [MACD](indicators/struct.MovingAverageConvergenceDivergence.html) it is `(f64, f64, f64)` since
/// MACD returns 3 values.
///
pub trait Next<T> {
    type Output;
    fn next(&mut self, input: T) -> Self::Output;
}

/// Open price of a particular period.
pub trait Open {
    fn open(&self) -> f64;
}

/// Close price of a particular period.
pub trait Close {
    fn close(&self) -> f64;
}

/// Lowest price of a particular period.
pub trait Low {
    fn low(&self) -> f64;
}

/// Highest price of a particular period.
pub trait High {
    fn high(&self) -> f64;
}

/// Trading volume of a particular trading period.
pub trait Volume {
    fn volume(&self) -> f64;
}
