
// @harness vk_max_display props=C11 kind=bounded(concrete-parameters) tier=thorough
// Display renders NAME(params): MAX(14) (concrete parameters only)
#[kani::proof]
#[kani::unwind(40)]
fn vk_max_display() {
    let ind = Maximum::new(14).unwrap();
    let s = format!("{}", ind);
    assert!(s == "MAX(14)");
}
