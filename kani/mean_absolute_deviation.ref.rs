fn vk_small_int() -> f64 { let v: i8 = kani::any(); kani::assume(v >= -4 && v <= 4); v as f64 }

// differential check against the textbook definition on the recorded history, after every prefix
fn vk_mad_matches_reference<const P: usize, const K: usize>() {
    let mut ind = MeanAbsoluteDeviation::new(P).unwrap();
    let mut hist = [0.0f64; K];
    let mut t = 0;
    while t < K {
        let x = vk_small_int();
        hist[t] = x;
        let out = ind.next(x);
        let n = if t + 1 < P { t + 1 } else { P };       // the window is exactly the last min(t+1, P) inputs
        let lo = t + 1 - n;
        let mut s = 0.0;
        let mut j = lo;
        while j <= t { s += hist[j]; j += 1; }
        let mean = s / (n as f64);
        let mut d = 0.0;
        let mut j2 = lo;
        while j2 <= t { d += (hist[j2] - mean).abs(); j2 += 1; }
        let want = d / (n as f64);
        assert!(out >= 0.0);
        assert!((out - want).abs() <= 1e-12);                // summation order differs (buffer order vs chronological)
        t += 1;
    }
}
// @harness vk_mad_matches_reference_p1 props=C01,C09,C17 kind=bounded(period=1,steps=3) tier=quick
#[kani::proof] #[kani::unwind(6)] fn vk_mad_matches_reference_p1() { vk_mad_matches_reference::<1, 3>() }
// @harness vk_mad_matches_reference_p2 props=C01,C09,C17 kind=bounded(period=2,steps=5) tier=thorough
#[kani::proof] #[kani::unwind(8)] fn vk_mad_matches_reference_p2() { vk_mad_matches_reference::<2, 5>() }
