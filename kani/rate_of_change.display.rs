
// @harness vk_roc_display props=C11 kind=bounded(concrete-parameters) tier=thorough
// Display renders NAME(params): ROC(9) (concrete parameters only)
#[kani::proof]
#[kani::unwind(40)]
fn vk_roc_display() {
    let ind = RateOfChange::new(9).unwrap();
    let s = format!("{}", ind);
    assert!(s == "ROC(9)");
}
