use std::fmt;

use crate::errors::Result;
use crate::indicators::StandardDeviation as Sd;
use crate::{Close, Next, Period, Reset};
#[cfg(feature = "serde")]
use serde::{Deserialize, Serialize};

/// A Bollinger Bands (BB).
/// (BB).
/// It is a type of infinite impulse response filter that calculates Bollinger Bands using Exponential Moving Average.
/// The Bollinger Bands are represented by Average EMA and standard deviaton that is moved 'k' times away in both directions from calculated average value.
///
/// # Formula
///
/// See SMA, SD documentation.
///
/// BB is composed as:
///
///  * _BB<sub>Middle Band</sub>_ - Simple Moving Average (SMA).
///  * _BB<sub>Upper Band</sub>_ = SMA + SD of observation * multipler (usually 2.0)
///  * _BB<sub>Lower Band</sub>_ = SMA - SD of observation * multipler (usually 2.0)
///
/// # Example
///
///```
/// use ta::indicators::{BollingerBands, BollingerBandsOutput};
/// use ta::Next;
///
/// let mut bb = BollingerBands::new(3, 2.0_f64).unwrap();
///
/// let out_0 = bb.next(2.0);
///
/// let out_1 = bb.next(5.0);
///
/// assert_eq!(out_0.average, 2.0);
/// assert_eq!(out_0.upper, 2.0);
/// assert_eq!(out_0.lower, 2.0);
///
/// assert_eq!(out_1.average, 3.5);
/// assert_eq!(out_1.upper, 6.5);
/// assert_eq!(out_1.lower, 0.5);
/// ```
///
/// # Links
///
/// * [Bollinger Bands, Wikipedia](https://en.wikipedia.org/wiki/Bollinger_Bands)
#[doc(alias = "BB")]
#[cfg_attr(feature = "serde", derive(Serialize, Deserialize))]
#[derive(Debug, Clone)]
pub struct BollingerBands {
    period: usize,
    multiplier: f64,
    sd: Sd,
}

#[derive(Debug, Clone, PartialEq)]
pub struct BollingerBandsOutput {
    pub average: f64,
    pub upper: f64,
    pub lower: f64,
}

impl BollingerBands {
    pub fn new(period: usize, multiplier: f64) -> Result<Self> {
        Ok(Self {
            period,
            multiplier,
            sd: Sd::new(period)?,
        })
    }

    pub fn multiplier(&self) -> f64 {
        self.multiplier
    }
}

impl Period for BollingerBands {
    fn period(&self) -> usize {
        self.period
    }
}

impl Next<f64> for BollingerBands {
    type Output = BollingerBandsOutput;

    fn next(&mut self, input: f64) -> Self::Output {
        let sd = self.sd.next(input);
        let mean = self.sd.mean();

        Self::Output {
            average: mean,
            upper: mean + sd * self.multiplier,
            lower: mean - sd * self.multiplier,
        }
    }
}

impl<T: Close> Next<&T> for BollingerBands {
    type Output = BollingerBandsOutput;

    fn next(&mut self, input: &T) -> Self::Output {
        self.next(input.close())
    }
}

impl Reset for BollingerBands {
    fn reset(&mut self) {
        self.sd.reset();
    }
}

impl Default for BollingerBands {
    fn default() -> Self {
        Self::new(9, 2_f64).unwrap()
    }
}

impl fmt::Display for BollingerBands {
    fn fmt(&self, f: &mut fmt::Formatter) -> fmt::Result {
        write!(f, "BB({}, {})", self.period, self.multiplier)
    }
}

#[cfg(test)]
mod tests {
    use super::*;
    use crate::test_helper::*;

    test_indicator!(BollingerBands);

    #[test]
    fn test_new() {
        assert!(BollingerBands::new(0, 2_f64).is_err());
        assert!(BollingerBands::new(1, 2_f64).is_ok());
        assert!(BollingerBands::new(2, 2_f64).is_ok());
    }

    #[test]
    fn test_next() {
        let mut bb = BollingerBands::new(3, 2.0_f64).unwrap();

        let a = bb.next(2.0);
        let b = bb.next(5.0);
        let c = bb.next(1.0);
        let d = bb.next(6.25);

        assert_eq!(round(a.average), 2.0);
        assert_eq!(round(b.average), 3.5);
        assert_eq!(round(c.average), 2.667);
        assert_eq!(round(d.average), 4.083);

        assert_eq!(round(a.upper), 2.0);
        assert_eq!(round(b.upper), 6.5);
        assert_eq!(round(c.upper), 6.066);
        assert_eq!(round(d.upper), 8.562);

        assert_eq!(round(a.lower), 2.0);
        assert_eq!(round(b.lower), 0.5);
        assert_eq!(round(c.lower), -0.733);
        assert_eq!(round(d.lower), -0.395);
    }

    #[test]
    fn test_reset() {
        let mut bb = BollingerBands::new(5, 2.0_f64).unwrap();

        let out = bb.next(3.0);

        assert_eq!(out.average, 3.0);
        assert_eq!(out.upper, 3.0);
        assert_eq!(out.lower, 3.0);

        bb.next(2.5);
        bb.next(3.5);
        bb.next(4.0);

        let out = bb.next(2.0);

        assert_eq!(out.average, 3.0);
        assert_eq!(round(out.upper), 4.414);
        assert_eq!(round(out.lower), 1.586);

        bb.reset();
        let out = bb.next(3.0);
        assert_eq!(out.average, 3.0);
        assert_eq!(out.upper, 3.0);
        assert_eq!(out.lower, 3.0);
    }

    #[test]
    fn test_default() {
        BollingerBands::default();
    }

    #[test]
    fn test_display() {
        let bb = BollingerBands::new(10, 3.0_f64).unwrap();
        assert_eq!(format!("{}", bb), "BB(10, 3)");
    }
}
