#!/usr/bin/env python3
"""regenerates MANIFEST.json from the table below (run by hand)"""
import json, sys
sys.path.insert(0, '/verif/vlib')
import kani_lane as K
KP = sorted(K._prop_harnesses())
KANI_NOTE = " Kani harnesses labelled bounded(...) in the evidence are bounded stand-ins (period bound stated per harness), never counted as unbounded proofs; complete harnesses are loop-free over all f64/usize values."
IDEAL = ("Numeric content is proved for exact real arithmetic on finite f64 values (prelude axioms T1-T5: floats never trap, ideal + - * / sqrt abs max, "
         "extended-real order, literals, usize->f64 exact, slice length bound); rounding, overflow and underflow are idealised away, so the tau(t) tolerances in the "
         "property text are not decided. Trusted: Verus/Z3/rustc, the weaver's item deletion list (tests, Display impls, serde attributes), user price getters are pure, "
         "the assumed contract of find_min_index/find_max_index (bounded-checked by Kani), algebra lemmas discharged by z3 outside Verus.")
P = {
 'C01': ("proof", "Verus proves, for every period, stream and prefix, that SMA/WMA/SD/MAD/BB `next` return the textbook statistic of a window that is exactly push_trunc of the previous one (so: the last min(t,n) inputs, divisor = window length), and Min/Max return an element of the padded window that nothing is below/above; obligations are contract clauses on the real function bodies woven from /repo on every run", "7 C01", "Verus contracts on woven real code; ring-buffer + sum invariants; algebra lemmas via z3"),
 'C02': ("proof", "Verus proves EMA::new establishes alpha*(n+1)=2, EMA::next seeds with the first input then applies alpha*x+(1-alpha)*prev, and TR/ATR/MACD/KC/CE are wired from those parts exactly as documented (modular: callers see only callee contracts); unbounded in periods, multipliers and stream length", "7 C02", "Verus contracts on woven real code, modular composition"),
 'C03': ("proof", "Verus proves RSI, FastStochastic, SlowStochastic, ROC, ER, PPO, CCI, MFI, OBV `next` equal their documented formula over the abstract window/state whenever the reference denominator is non-zero (exact real arithmetic), for every period and stream", "7 C03", "Verus contracts on woven real code"),
 'C04': ("proof", "Verus proves every reset() -- from any shape-valid state, including after NaN/inf inputs -- re-establishes exactly the abstract state new() establishes with parameters framed; next() is a function of abstract state and input, so all later outputs equal a fresh instance's", "7 C04", "Verus contracts: reset_init == new's postcondition"),
 'C07': ("proof", "Verus proves RSI, FastStochastic, SlowStochastic, MFI outputs lie in [0,100] and ER in [0,1] whenever the defining denominator is non-zero (exact real arithmetic; invariants U,D>=0, min<=x<=max, EMA convexity, triangle inequality)", "7 C07", "Verus range clauses with inductive invariants"),
 'C08': ("proof", "Verus proves the degenerate-window clauses: FastStochastic returns the literal 50, CCI the literal 0, ROC and TR exactly 0, and RSI/ER/MFI return a finite in-range neutral value when gains+losses / volatility / money flow are zero (the three guards added by fix: commits)", "7 C08", "Verus ens_degen clauses"),
 'C09': ("proof", "Verus proves SD, MAD >= 0; TR, ATR >= 0 for low<=high; Min <= input <= Max; lower <= average <= upper for BB and KC with multiplier >= 0; CE long <= window max, short >= window min; MACD/PPO histogram = line - signal; EMA within [lo,hi] of its inputs", "7 C09", "Verus range clauses"),
 'C10': ("proof", "Verus proves every Next<&T> impl of the close/low/high-only indicators satisfies, by definition of its contract, exactly the Next<f64> contract at the documented getter; contracts mention no other field, and the bodies are proved against them", "7 C10", "Verus: Next<&T> contract == Next<f64> contract at getter"),
 'C11': ("proof", "Verus proves each new() returns Err(InvalidParameter) iff some period is 0 and otherwise Ok without arithmetic overflow for every period value, period()/multiplier() return the constructor arguments, these are framed through every next/reset, and default() equals new(documented defaults); Display text is outside Verus (the extraction drops the `write!` impls); the thorough tier checks it with Kani for one concrete documented parameter set per indicator (19 indicators; the three that print an f64 multiplier, BB/KC/CE, exceed CBMC's budget and stay uncovered)", "7 C11", "Verus contracts on constructors/accessors"),
 'C12': ("proof", "Verus proves absence of index-out-of-bounds, usize overflow and unwrap-on-None in new/next/reset/period/default for every input (preconditions are shape-only, so NaN/inf are allowed), every period and unboundedly many calls; clone/Debug/Display/serde are macro-generated code outside reach", "7 C12", "Verus built-in safety obligations under shape-only preconditions"),
 'C14': ("proof", "Spec-level lemmas proved by Verus: the spec functions the code is proved equal to (window mean, weighted mean, population variance, mean absolute deviation, EMA step, TrueRange, least/greatest element) scale with the price unit and shift with the offset exactly as the property states, and the dimensionless formulas (FastStochastic, ROC, MFI-type ratios) are invariant; Max(x) = -Min(-x). Paired with the value clauses that tie each indicator's code to those spec functions. Subset actually proved is listed in the evidence; SlowStochastic/PPO/CCI/ER/OBV composites and Keltner/Chandelier levels follow only by composition and have no dedicated lemma", "7 C14", "Verus spec-level covariance lemmas + functional contracts"),
 'C15': ("proof", "Verus verifies each composite against its parts' contracts only (modular), and the composite's value clause is literally the composition of the parts' public spec functions (BB.average = SMA spec, CCI = SMA/MAD spec of the typical price, ATR = EMA of TR, ...)", "7 C15", "Verus modular call-site reasoning"),
 'C05': ("other", "Determinism: every verified next() returns a spec function of (abstract state, input) -- a body consulting a global, thread-local, clock or RNG cannot be given such a postcondition (Verus has no spec for those calls, so the obligation fails or the construct is rejected, never a pass). Clones: Kani harnesses (bounded period <= 3, all stored values symbolic) show derive(Clone) copies every field bit-exactly into a distinct allocation and that feeding the clone leaves the original untouched. Interleavings across threads are not expressible in either verifier and are not covered", "7 C05", "Verus functional value clauses + Kani clone deep-copy/frame harnesses (bounded)"),
 'C16': ("proof", "Verus proves build()'s contract for every builder state in the order of the extended reals (Incomplete iff a field is missing, else Invalid iff one of the six comparisons fails -- any NaN fails one --, else Ok with the getters returning what was set); and Kani/CBMC, bit-precise and complete (loop-free, every value kani::any()): build() on all 2^5 presence patterns x all f64 bit patterns returns Incomplete iff a field is missing, else Invalid iff one of the six comparisons fails (so any NaN is rejected), else Ok with getters bit-equal to what was set and clone == self; each setter touches exactly its own field from any builder state (order irrelevant, last wins)", "7 C16", "Kani complete harnesses over the real DataItemBuilder"),
 'C18': ("proof", "Verus proves deque.len() == period is an invariant of every operation of every windowed indicator; a serialized-size spec generated from the struct definitions of the current tree (bincode layout rules assumed) is proved <= K + 8*buffer slots with K <= 256, and buffer slots == sum of periods under the shape invariant; any field whose type is not a fixed-size scalar, Option<f64>, the period-length buffer or an indicator makes the check undecided", "7 C18", "Verus shape invariant + generated layout lemmas"),
 'C19': ("other", "245 generated static trait-bound assertions (one generic use site per documented bound and indicator) type-check against a scratch copy of /repo, with and without the serde feature; decided by rustc's trait solver, not an SMT back end", "7 C19", "rustc trait solver on generated assertion program"),
 'C17': ("proof", "Verus proves the abstract state of each windowed indicator is its window (push_trunc of the previous window) and outputs are functions of that window, so equal last-n inputs give equal outputs (exact arithmetic)", "7 C17", "Verus functional value clauses over push_trunc windows"),
}
checks = []
for pid, (cat, text, ref, tech) in sorted(P.items()):
    checks.append({
        'property_id': pid,
        'quick_cmd': 'python3 check.py %s --tier quick' % pid,
        'thorough_cmd': 'python3 check.py %s --tier thorough' % pid,
        'evidence_file': '/verif/evidence/%s.json' % pid,
        'replay_cmd_template': 'python3 check.py --replay {path}',
        'level_claimed': {'category': cat, 'text': text, 'design_ref': 'DESIGN.md section ' + ref},
        'level_note': (IDEAL + KANI_NOTE) if pid not in ('C16', 'C19') else ('Kani 0.68/CBMC 6.11 trusted; harness states are built fieldwise from kani::any(); the Verus part uses the order axioms T3 only (no arithmetic); the five `mut self` setters are outside Verus (external) and covered by Kani' if pid == 'C16' else 'rustc trait solver trusted; the assertion list in vlib/traits_lane.py mirrors the documented bounds'),
        'engine': 'verus-weave' if pid != 'C19' else 'rustc-traits',
        'technique': tech + (' + Kani harnesses (complete where loop-free; differential-vs-textbook and op-sequence harnesses bounded to period <= 3)' if pid in KP and pid not in ('C16',) else ''),
    })
NA = [
 {"property_id": "C06", "reason": "decided by serde_derive-generated and bincode code, outside Verus (cannot load the crates) and Kani (20-minute probe on the smallest case did not terminate); no contract within reach expresses it"},
 {"property_id": "C13", "reason": "the property is the accumulated difference between IEEE-754 and real arithmetic over 10^6 steps, which this family idealises away (Verus has no float theory; Kani cannot unroll 10^6 float steps)"},
]
M = {
 'version': 1,
 'setup_cmd': 'true',
 'hooks': {'guard': 'none', 'enable': 'no hooks: nothing is added to /repo; every check weaves /repo/src into a scratch file and verifies that', 'baseline_off_cmd': 'cd /repo && cargo test --workspace --no-fail-fast --offline', 'source_commits': [], 'add_only': True},
 'engines': [{'name': 'kani', 'path': '/verif/vlib/kani_lane.py', 'serves_properties': KP, 'kind_free_text': 'Kani 0.68 / CBMC harnesses (kani/*.rs) appended as #[cfg(kani)] child modules to a scratch copy of /repo'},
   {'name': 'rustc-traits', 'path': '/verif/vlib/traits_lane.py', 'serves_properties': ['C19'], 'kind_free_text': 'generated trait-bound assertion program, cargo check'},
   {'name': 'verus-weave', 'path': '/verif/check.py', 'serves_properties': sorted(x for x in P if x != 'C19'), 'kind_free_text': 'contract-based deductive verification: /repo/src woven with sidecar contracts (contracts/*.vspec) into one Verus file, verified by Verus 0.2026.09.13 + Z3; polynomial side lemmas by z3/cvc5'}],
 'checks': checks,
 'not_applicable': NA,
 'notes': 'fix: commits in /repo (see known_findings.json): EMA::new overflow, CCI MAD series, ER/RSI/MFI zero-denominator NaN. exit 2 = undecided (tooling / lost anchor / solver limit), never reported as a violation.',
}
json.dump(M, open('/verif/MANIFEST.json', 'w'), indent=1)
print(len(checks), 'checks')
