verus! {
pub trait Next<T> {
    type Output;
    spec fn next_req(&self, input: T) -> bool;
    spec fn next_ens(&self, post: &Self, input: T, out: Self::Output) -> bool;
    fn next(&mut self, input: T) -> (out: Self::Output)
        requires old(self).next_req(input),
        ensures old(self).next_ens(final(self), input, out);
}
// weighted sum with weights 1..k, oldest lightest
pub open spec fn seq_wsum(s: Seq<f64>) -> real decreases s.len() {
    if s.len() == 0 { 0real } else { seq_wsum(s.drop_last()) + (s.len() as real) * rv(s.last()) }
}
pub proof fn lemma_wsum_push(s: Seq<f64>, x: f64)
    ensures seq_wsum(s.push(x)) == seq_wsum(s) + ((s.len() + 1) as real) * rv(x)
{ assert(s.push(x).drop_last() =~= s); }
// dropping the oldest lowers every weight by one: wsum(s[1..]) = wsum(s) - sum(s)
pub proof fn lemma_wsum_drop_first(s: Seq<f64>)
    requires s.len() >= 1
    ensures seq_wsum(s.subrange(1, s.len() as int)) == seq_wsum(s) - seq_sum(s)
    decreases s.len()
{
    if s.len() == 1 {
        assert(s.drop_last() =~= Seq::<f64>::empty());
        assert(s.subrange(1, 1) =~= Seq::<f64>::empty());
        assert(seq_sum(s.drop_last()) == 0real);
        assert(seq_wsum(s.drop_last()) == 0real);
        assert(s.last() == s[0]);
        assert(1real * rv(s[0]) == rv(s[0])) by(nonlinear_arith);
    } else {
        let t = s.subrange(1, s.len() as int);
        lemma_wsum_drop_first(s.drop_last());
        assert(t.drop_last() =~= s.drop_last().subrange(1, s.len() - 1));
        assert(t.last() == s.last());
        let n = s.len() as real; let x = rv(s.last());
        assert(t.len() as real == n - 1real);
        assert((n - 1real) * x == n * x - x) by(nonlinear_arith);
    }
}

pub struct Wma { period: usize, index: usize, count: usize, weight: f64, sum: f64, sum_flat: f64, deque: Box<[f64]> }
impl Wma {
    pub closed spec fn win(&self) -> Seq<f64> { ring_win(self.deque@, self.index as int, self.count as int) }
    pub closed spec fn per(&self) -> int { self.period as int }
    pub closed spec fn shape_ok(&self) -> bool { ring_ok(self.deque@, self.index as int, self.count as int) && self.deque@.len() == self.period }
    pub closed spec fn num_ok(&self) -> bool {
        &&& fin(self.weight) && fin(self.sum) && fin(self.sum_flat) && all_fin(self.deque@)
        &&& rv(self.weight) == self.count as real
        &&& rv(self.sum) == seq_wsum(self.win())
        &&& rv(self.sum_flat) == seq_sum(self.win())
        &&& (self.count < self.period ==> forall|i: int| self.count <= i < self.period ==> rv(#[trigger] self.deque@[i]) == 0real)
    }
}
pub open spec fn tri(k: real) -> real { k * (k + 1real) / 2real }
impl Next<f64> for Wma {
    type Output = f64;
    open spec fn next_req(&self, input: f64) -> bool { self.shape_ok() }
    open spec fn next_ens(&self, post: &Self, input: f64, out: f64) -> bool { 
        &&& post.shape_ok() && post.per() == self.per() 
        &&& self.num_ok() && fin(input) ==> {
            &&& post.num_ok()
            &&& post.win() == push_trunc(self.win(), input, self.per())
            &&& fin(out) && rv(out) == seq_wsum(post.win()) / tri(post.win().len() as real)
        }
    }
    fn next(&mut self, input: f64) -> Self::Output {
        broadcast use f64_axioms;
        proof { lemma_ring_step(self.deque@, self.index as int, self.count as int, input); ax_lit_0(); ax_lit_1(); ax_lit_2();
            if self.num_ok() && fin(input) {
                if self.count == self.period { 
                    lemma_sum_drop_first(self.win()); lemma_sum_push(self.win().subrange(1, self.win().len() as int), input);
                    lemma_wsum_drop_first(self.win()); lemma_wsum_push(self.win().subrange(1, self.win().len() as int), input);
                } else { lemma_sum_push(self.win(), input); lemma_wsum_push(self.win(), input); }
            }
        }
        let old_val: f64 = self.deque[self.index];
        self.deque[self.index] = input;

        self.index = if self.index + 1 < self.period {
            self.index + 1
        } else {
            0
        };

        if self.count < self.period {
            self.count = self.count + (1);
            self.weight = usize_as_f64(self.count);
            self.sum = self.sum + (input * self.weight)
        } else {
            self.sum = self.sum - self.sum_flat + (input * self.weight);
        }
        self.sum_flat = self.sum_flat - old_val + input;
        proof {
            if old(self).num_ok() && fin(input) {
                assert(self.win() =~= push_trunc(old(self).win(), input, old(self).per()));
                assert(rv(input) * rv(self.weight) == rv(self.weight) * rv(input)) by(nonlinear_arith);
                assert(old(self).count == old(self).period ==> old_val == old(self).win()[0]);
                assert(rv(self.sum_flat) == seq_sum(self.win()));
                assert(rv(self.sum) == seq_wsum(self.win()));
                let k = self.count as real;
                assert(k >= 1real);
                assert(k * (k + 1real) > 0real) by(nonlinear_arith) requires k >= 1real;
                assert(k * (k + 1real) / 2real != 0real);
            }
        }
        self.sum / (self.weight * (self.weight + 1.0) / 2.0)
    }
}
}
fn main() {}
