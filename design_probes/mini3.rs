verus! {
pub struct A { sum: f64, prev: f64 }
impl A {
    fn a(&mut self, input: f64) -> f64 {
        broadcast use f64_axioms;
        self.sum = self.sum + input;
        self.sum
    }
}
pub struct B { sum: f64, prev: f64 }
impl B {
    pub closed spec fn wf(&self) -> bool { true }
    fn a(&mut self, input: f64) -> f64 {
        broadcast use f64_axioms;
        self.sum = self.sum + input;
        self.sum
    }
}
pub struct C { sum: f64, n: usize }
impl C {
    fn a(&mut self, input: f64) -> f64 {
        broadcast use f64_axioms;
        self.sum = self.sum + input;
        self.sum
    }
}
}
fn main() {}
