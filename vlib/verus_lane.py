"""Verus lane: run verus on the woven file, map diagnostics to (function, clause kind), inventory obligations."""
import json
import os
import re
import shutil
import subprocess
import sys
import tempfile
import time

sys.path.insert(0, os.path.dirname(os.path.abspath(__file__)))
from rustscan import mask, split_items, match_close, ScanError

MARK = re.compile(r'//#([A-Za-z0-9_,]+)')


class Fn:
    def __init__(self):
        self.id = ''
        self.module = ''
        self.impl = ''
        self.name = ''
        self.lo = self.hi = 0      # woven lines (1-based, inclusive)
        self.body_lo = 0           # line of the opening brace of the body (== hi for decls)
        self.mode = 'exec'
        self.trait_impl = None     # trait name when this is a method of `impl Trait for X`
        self.external = False
        self.delegated = False
        self.has_body = True

    def __repr__(self):
        return 'Fn(%s %s %d-%d)' % (self.mode, self.id, self.lo, self.hi)


def fn_table(text):
    """all fn items of the woven file (recursively through mod / impl / trait)"""
    m = mask(text)
    # the verus! { ... } macro body
    start = text.index('verus! {') + len('verus! {')
    end = match_close(m, start - 1)
    starts = [0]
    for mm in re.finditer('\n', text):
        starts.append(mm.end())
    import bisect

    def line_of(p):
        return bisect.bisect_right(starts, p)
    fns = []

    def walk(lo, hi, modpath, implkey, trait_impl, delegated=False):
        for it in split_items(text, m, lo, hi):
            if it.kind == 'mod' and it.body_lo >= 0:
                walk(it.body_lo, it.body_hi, modpath + [it.name], '', None)
            elif it.kind in ('impl', 'trait') and it.body_lo >= 0:
                key = it.name if it.kind == 'impl' else 'trait ' + it.name
                ti = None
                if it.kind == 'impl' and ' for ' in it.name:
                    ti = it.name.split(' for ')[0].split('<')[0].strip()
                if it.kind == 'trait':
                    ti = 'decl:' + it.name
                walk(it.body_lo, it.body_hi, modpath, key, ti, '<Self as Next<f64>>::ens_value(' in text[it.body_lo:it.body_hi])
            elif it.kind == 'fn':
                f = Fn()
                f.module = '::'.join(modpath)
                f.impl = implkey
                f.name = it.name
                f.id = '::'.join([x for x in ['::'.join(modpath), implkey, it.name] if x])
                f.lo, f.hi = line_of(it.start), line_of(it.end - 1)
                f.body_lo = line_of(it.body_lo) if it.body_lo >= 0 else f.hi
                f.has_body = it.body_lo >= 0
                hdr = m[it.attr_end:it.hdr_end]
                pre = hdr[:hdr.index('fn')]
                f.mode = 'proof' if re.search(r'\b(proof|axiom)\b', pre) else ('spec' if re.search(r'\bspec\b', pre) else 'exec')
                if re.search(r'\baxiom\b', pre):
                    f.mode = 'axiom'
                attrs = ' '.join(it.attrs)
                # attributes may sit inside an insertion marker before the header
                lead = text[it.start:it.attr_end] + text[max(0, it.start - 80):it.start]
                f.external = 'verifier::external' in lead or 'verifier::external' in attrs
                f.trait_impl = trait_impl
                f.delegated = delegated
                fns.append(f)
    walk(start, end, [], '', None)
    return fns


_DEFAULT_KIND = [
    (re.compile(r'possible arithmetic (underflow|overflow)|possible division by zero|index out of bounds|unwrap|recommendation not met'), 'shape'),
    (re.compile(r'precondition not satisfied|precondition not met|requires not satisfied'), 'shape'),
    (re.compile(r'postcondition not satisfied|assertion failed|invariant not satisfied|decreases not satisfied|loop invariant'), 'value'),
]
_UNDECIDED = re.compile(r'rlimit|resource limit|timed? ?out|could not|unknown|incomplete|not supported|does not (yet )?support|unsupported|panicked|internal error', re.I)


class Diag:
    def __init__(self):
        self.message = ''
        self.line = 0
        self.lines = []
        self.kinds = []
        self.fn = None
        self.rendered = ''
        self.clause_text = ''
        self.undecided = False


def run_verus(text, modules=None, rlimit=60, timeout=900, threads=16, extra=(), keep=None):
    """-> dict(ok, rc, diags[], breakdown{fn: {...}}, times, stdout_json)"""
    d = tempfile.mkdtemp(prefix='taverif-verus-')
    try:
        path = os.path.join(d, 'ta.rs')
        open(path, 'w').write(text)
        cmd = ['timeout', str(timeout), 'verus', 'ta.rs', '--output-json', '--time', '--error-format=json',
               '--multiple-errors', '40', '--rlimit', str(rlimit), '--num-threads', str(threads)]
        for mo in (modules or []):
            cmd += ['--verify-module', mo]
        cmd += list(extra)
        t0 = time.time()
        p = subprocess.run(cmd, cwd=d, capture_output=True, text=True)
        wall = time.time() - t0
        if keep:
            shutil.copy(path, keep)
        res = {'rc': p.returncode, 'wall_s': wall, 'cmd': ' '.join(cmd), 'diags': [], 'breakdown': {}, 'raw_err': p.stderr[-20000:]}
        try:
            # stdout may have non-JSON noise before the object
            so = p.stdout
            res['json'] = json.loads(so[so.index('{'):])
        except Exception:
            res['json'] = None
        for line in p.stderr.splitlines():
            line = line.strip()
            if not line.startswith('{'):
                continue
            try:
                j = json.loads(line)
            except Exception:
                continue
            if j.get('$message_type') != 'diagnostic':
                continue
            res['diags'].append(j)
        if res['json']:
            tm = res['json'].get('times-ms', {})
            for mod in tm.get('smt', {}).get('smt-run-module-times', []):
                for fb in mod.get('function-breakdown', []):
                    res['breakdown'][fb['function']] = fb
            res['smt_ms'] = tm.get('smt', {}).get('smt-run', 0)
            res['total_ms'] = tm.get('total', 0)
            res['verified'] = res['json'].get('verification-results', {}).get('verified')
            res['errors'] = res['json'].get('verification-results', {}).get('errors')
            res['version'] = res['json'].get('verus', {}).get('version')
        return res
    finally:
        shutil.rmtree(d, ignore_errors=True)


def classify(res, text, fns, ins_lines=()):
    """turn raw diagnostics into Diag objects with function + kinds"""
    lines = text.split('\n')
    out = []
    hard = []
    for j in res['diags']:
        lvl = j.get('level')
        msg = j.get('message', '')
        if lvl == 'warning' or lvl == 'note' or lvl == 'help':
            continue
        if msg.startswith('aborting due to') or msg.startswith('For more information'):
            continue
        dg = Diag()
        dg.message = msg
        dg.rendered = j.get('rendered') or ''
        spans = j.get('spans', [])
        prim = [s for s in spans if s.get('is_primary') and s.get('file_name', '').endswith('ta.rs')]
        sec = [s for s in spans if not s.get('is_primary') and s.get('file_name', '').endswith('ta.rs')]
        allsp = prim + sec
        dg.lines = [s['line_start'] for s in allsp]
        # kinds from markers on any involved line (span lines inclusive)
        kinds = []
        for s in allsp:
            for ln in range(s['line_start'], s['line_end'] + 1):
                if 0 < ln <= len(lines):
                    mm = MARK.search(lines[ln - 1])
                    if mm:
                        kinds += mm.group(1).split(',')
                        dg.clause_text = lines[ln - 1].strip()
        # the function: the exec/proof fn (with a body) containing a span line; prefer body-containing one
        cand = None
        for s in allsp:
            for f in fns:
                if f.lo <= s['line_start'] <= f.hi and f.has_body and f.mode in ('exec', 'proof'):
                    if f.trait_impl and f.trait_impl.startswith('decl:'):
                        continue
                    if cand is None or (f.hi - f.lo) < (cand.hi - cand.lo):
                        cand = f
            if cand:
                break
        dg.fn = cand
        if not kinds and prim and prim[0]['line_start'] in ins_lines and ('precondition' in msg or 'requires not satisfied' in msg):
            kinds = ['value']     # a lemma call / ghost precondition inside inserted proof text
        if not kinds:
            for rx, k in _DEFAULT_KIND:
                if rx.search(msg):
                    kinds = [k]
                    break
        dg.kinds = sorted(set(kinds))
        if prim:
            dg.line = prim[0]['line_start']
            if not dg.clause_text:
                dg.clause_text = lines[dg.line - 1].strip() if 0 < dg.line <= len(lines) else ''
        known_verdict = any(rx.search(msg) for rx, _ in _DEFAULT_KIND)
        if (not known_verdict) or _UNDECIDED.search(msg) or cand is None or not dg.kinds:
            dg.undecided = True
        out.append(dg)
    return out


def inventory(text, fns):
    """obligation inventory: {fn.id: {kind: [clause text, ...]}} measured from the woven text"""
    lines = text.split('\n')
    # clause lists of trait method declarations
    decl = {}
    for f in fns:
        if f.trait_impl and f.trait_impl.startswith('decl:'):
            tr = f.trait_impl[5:]
            cl = []
            for ln in range(f.lo, f.hi + 1):
                mm = MARK.search(lines[ln - 1])
                if mm:
                    cl.append((mm.group(1).split(','), lines[ln - 1].strip()))
            decl[(tr, f.name)] = cl
    inv = {}
    for f in fns:
        if f.mode not in ('exec', 'proof') or f.external:
            continue
        if f.trait_impl and f.trait_impl.startswith('decl:'):
            continue
        if not f.has_body:
            continue
        ob = {}

        def add(kinds, txt):
            for k in kinds:
                ob.setdefault(k, []).append(txt)
        if f.trait_impl:
            for kinds, txt in decl.get((f.trait_impl, f.name), []):
                add(kinds, txt)
        in_hdr = True
        for ln in range(f.lo, f.hi + 1):
            L = lines[ln - 1]
            mm = MARK.search(L)
            if ln < f.body_lo:
                if mm:
                    add(mm.group(1).split(','), L.strip())
                elif f.mode == 'proof' and re.search(r'\bensures\b', L) is None and False:
                    pass
            else:
                stripped = L.strip()
                if mm and not stripped.startswith('//'):
                    add(mm.group(1).split(','), stripped)
                elif re.match(r'(assert\b|assert forall)', stripped):
                    add(['value' if f.mode == 'exec' else 'lemma'], stripped)
        if f.mode == 'exec':
            add(['shape'], 'built-in safety of %s: index bounds, usize overflow, unwrap, callee preconditions, float-operator preconditions' % f.name)
        if f.mode == 'proof' and not ob:
            add(['lemma'], 'ensures of ' + f.name)
        inv[f.id] = ob
    return inv
