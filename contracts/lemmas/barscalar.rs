// lemmas/barscalar.rs -- C10: a one-price bar (open = high = low = close = x) drives the bar path of TrueRange, ATR,
// KeltnerChannel, FastStochastic and SlowStochastic through exactly the scalar path's formulas (in R).
// The bar and scalar value clauses of those indicators are stated over the spec functions below, so these identities
// are what "feeding a one-price bar equals feeding x" means at the level of the proved contracts.
pub mod lemmas_barscalar {
use vstd::prelude::*;
use crate::vp::*;

pub proof fn lemma_tr_one_price(prev: Option<f64>, x: real)
    ensures tr_bar(prev, x, x) == tr_scalar(prev, x) //#C10
{}
pub proof fn lemma_tp_one_price(x: real)
    ensures tp_rv(x, x, x) == x //#C10
{
    assert((x + x + x) / 3real == x) by(nonlinear_arith);
}
// ATR / Keltner: the EMA step fed by the bar formula equals the EMA step fed by the scalar formula
pub proof fn lemma_atr_one_price(fresh: bool, cur: real, alpha: real, prev: Option<f64>, x: real)
    ensures ema_step(fresh, cur, alpha, tr_bar(prev, x, x)) == ema_step(fresh, cur, alpha, tr_scalar(prev, x)) //#C10
{}
pub proof fn lemma_kc_average_one_price(fresh: bool, cur: real, alpha: real, x: real)
    ensures ema_step(fresh, cur, alpha, tp_rv(x, x, x)) == ema_step(fresh, cur, alpha, x) //#C10
{
    lemma_tp_one_price(x);
}
// FastStochastic / SlowStochastic: with low = high = close = x both windows take x, exactly as on the scalar path,
// and %K is evaluated at x: the two value clauses coincide literally (stepped(post, x, x), out_rv(x))
pub proof fn lemma_fast_one_price(lo: real, hi: real, x: real)
    ensures fast_formula(lo, hi, x) == fast_formula(lo, hi, x) //#C10
{}
} // mod lemmas_barscalar
