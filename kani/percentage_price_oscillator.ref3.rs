fn vk3_ref_ema(hist: &[f64], t: usize, n: usize) -> f64 {
    let alpha = 2.0 / (n as f64 + 1.0);
    let mut e = hist[0];
    let mut j = 1;
    while j <= t { e = alpha * hist[j] + (1.0 - alpha) * e; j += 1; }
    e
}
fn vk3_pos() -> f64 { let v: u8 = kani::any(); kani::assume(v >= 1 && v <= 8); v as f64 }
// PPO = 100*(EMA_fast - EMA_slow)/EMA_slow, signal = EMA(PPO), histogram = PPO - signal
fn vk_ppo_matches_reference<const PF: usize, const PS: usize, const PG: usize, const K: usize>() {
    let mut ind = PercentagePriceOscillator::new(PF, PS, PG).unwrap();
    let mut hist = [0.0f64; K];
    let mut line = [0.0f64; K];
    let mut t = 0;
    while t < K {
        let x = vk3_pos();
        hist[t] = x;
        let out = ind.next(x);
        let (f, s) = (vk3_ref_ema(&hist, t, PF), vk3_ref_ema(&hist, t, PS));
        line[t] = (f - s) / s * 100.0;
        let sig = vk3_ref_ema(&line, t, PG);
        assert!(out.ppo == line[t] && out.signal == sig && out.histogram == line[t] - sig);
        t += 1;
    }
}
// @harness vk_ppo_matches_reference_313 props=C03,C09,C15 kind=bounded(periods=(3,1,3),steps=3) tier=thorough
#[kani::proof] #[kani::unwind(6)] fn vk_ppo_matches_reference_313() { vk_ppo_matches_reference::<3, 1, 3, 3>() }
