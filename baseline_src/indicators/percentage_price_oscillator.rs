use std::fmt;

use crate::errors::Result;
use crate::indicators::ExponentialMovingAverage as Ema;
use crate::{Close, Next, Period, Reset};
#[cfg(feature = "serde")]
use serde::{Deserialize, Serialize};

/// Percentage Price Oscillator (PPO).
///
/// The PPO indicator (or "oscillator") is a collection of three time series
/// calculated from historical price data, most often the closing price.
/// These three series are:
///
/// * The PPO series proper
/// * The "signal" or "average" series
/// * The "divergence" series which is the difference between the two
///
/// The PPO series is the difference between a "fast" (short period) exponential
/// moving average (EMA), and a "slow" (longer period) EMA of the price series.
/// The average series is an EMA of the PPO series itself.
///
/// # Formula
///
/// # Parameters
///
/// * _fast_period_ - period for the fast EMA. Default is 12.
/// * _slow_period_ - period for the slow EMA. Default is 26.
/// * _signal_period_ - period for the signal EMA. Default is 9.
///
/// # Example
///
/// ```
/// use ta::indicators::PercentagePriceOscillator as Ppo;
/// use ta::Next;
///
/// let mut ppo = Ppo::new(3, 6, 4).unwrap();
///
/// assert_eq!(round(ppo.next(2.0).into()), (0.0, 0.0, 0.0));
/// assert_eq!(round(ppo.next(3.0).into()), (9.38, 3.75, 5.63));
/// assert_eq!(round(ppo.next(4.2).into()), (18.26, 9.56, 8.71));
/// assert_eq!(round(ppo.next(7.0).into()), (28.62, 17.18, 11.44));
/// assert_eq!(round(ppo.next(6.7).into()), (24.01, 19.91, 4.09));
/// assert_eq!(round(ppo.next(6.5).into()), (17.84, 19.08, -1.24));
///
/// fn round(nums: (f64, f64, f64)) -> (f64, f64, f64) {
///     let n0 = (nums.0 * 100.0).round() / 100.0;
///     let n1 = (nums.1 * 100.0).round() / 100.0;
///     let n2 = (nums.2 * 100.0).round() / 100.0;
///     (n0, n1, n2)
/// }
/// ```
#[doc(alias = "PPO")]
#[cfg_attr(feature = "serde", derive(Serialize, Deserialize))]
#[derive(Debug, Clone)]
pub struct PercentagePriceOscillator {
    fast_ema: Ema,
    slow_ema: Ema,
    signal_ema: Ema,
}

impl PercentagePriceOscillator {
    pub fn new(fast_period: usize, slow_period: usize, signal_period: usize) -> Result<Self> {
        Ok(PercentagePriceOscillator {
            fast_ema: Ema::new(fast_period)?,
            slow_ema: Ema::new(slow_period)?,
            signal_ema: Ema::new(signal_period)?,
        })
    }
}

#[derive(Debug, Clone, PartialEq)]
pub struct PercentagePriceOscillatorOutput {
    pub ppo: f64,
    pub signal: f64,
    pub histogram: f64,
}

impl From<PercentagePriceOscillatorOutput> for (f64, f64, f64) {
    fn from(po: PercentagePriceOscillatorOutput) -> Self {
        (po.ppo, po.signal, po.histogram)
    }
}

impl Next<f64> for PercentagePriceOscillator {
    type Output = PercentagePriceOscillatorOutput;

    fn next(&mut self, input: f64) -> Self::Output {
        let fast_val = self.fast_ema.next(input);
        let slow_val = self.slow_ema.next(input);

        let ppo = (fast_val - slow_val) / slow_val * 100.0;
        let signal = self.signal_ema.next(ppo);
        let histogram = ppo - signal;

        PercentagePriceOscillatorOutput {
            ppo,
            signal,
            histogram,
        }
    }
}

impl<T: Close> Next<&T> for PercentagePriceOscillator {
    type Output = PercentagePriceOscillatorOutput;

    fn next(&mut self, input: &T) -> Self::Output {
        self.next(input.close())
    }
}

impl Reset for PercentagePriceOscillator {
    fn reset(&mut self) {
        self.fast_ema.reset();
        self.slow_ema.reset();
        self.signal_ema.reset();
    }
}

impl Default for PercentagePriceOscillator {
    fn default() -> Self {
        Self::new(12, 26, 9).unwrap()
    }
}

impl fmt::Display for PercentagePriceOscillator {
    fn fmt(&self, f: &mut fmt::Formatter) -> fmt::Result {
        write!(
            f,
            "PPO({}, {}, {})",
            self.fast_ema.period(),
            self.slow_ema.period(),
            self.signal_ema.period()
        )
    }
}

#[cfg(test)]
mod tests {
    use super::*;
    use crate::test_helper::*;
    type Ppo = PercentagePriceOscillator;

    test_indicator!(Ppo);

    fn round(nums: (f64, f64, f64)) -> (f64, f64, f64) {
        let n0 = (nums.0 * 100.0).round() / 100.0;
        let n1 = (nums.1 * 100.0).round() / 100.0;
        let n2 = (nums.2 * 100.0).round() / 100.0;
        (n0, n1, n2)
    }

    #[test]
    fn test_new() {
        assert!(Ppo::new(0, 1, 1).is_err());
        assert!(Ppo::new(1, 0, 1).is_err());
        assert!(Ppo::new(1, 1, 0).is_err());
        assert!(Ppo::new(1, 1, 1).is_ok());
    }

    #[test]
    fn test_next() {
        let mut ppo = Ppo::new(3, 6, 4).unwrap();

        assert_eq!(round(ppo.next(2.0).into()), (0.0, 0.0, 0.0));
        assert_eq!(round(ppo.next(3.0).into()), (9.38, 3.75, 5.63));
        assert_eq!(round(ppo.next(4.2).into()), (18.26, 9.56, 8.71));
        assert_eq!(round(ppo.next(7.0).into()), (28.62, 17.18, 11.44));
        assert_eq!(round(ppo.next(6.7).into()), (24.01, 19.91, 4.09));
        assert_eq!(round(ppo.next(6.5).into()), (17.84, 19.08, -1.24));
    }

    #[test]
    fn test_reset() {
        let mut ppo = Ppo::new(3, 6, 4).unwrap();

        assert_eq!(round(ppo.next(2.0).into()), (0.0, 0.0, 0.0));
        assert_eq!(round(ppo.next(3.0).into()), (9.38, 3.75, 5.63));

        ppo.reset();

        assert_eq!(round(ppo.next(2.0).into()), (0.0, 0.0, 0.0));
        assert_eq!(round(ppo.next(3.0).into()), (9.38, 3.75, 5.63));
    }

    #[test]
    fn test_default() {
        Ppo::default();
    }

    #[test]
    fn test_display() {
        let indicator = Ppo::new(13, 30, 10).unwrap();
        assert_eq!(format!("{}", indicator), "PPO(13, 30, 10)");
    }
}
