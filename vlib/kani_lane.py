"""Kani lane: bit-precise harnesses appended (as a #[cfg(kani)] child module) to a scratch copy of /repo.

/verif/kani/<module>.rs holds the harness bodies; a comment line
    // @harness <fn name> props=C16,C10 kind=complete|bounded(...) tier=quick|thorough
declares each one.  `complete` = loop-free, every value kani::any(): a proof over the full input space of that
function.  `bounded(...)` = a ring-buffer function with a compile-time period bound: a bounded stand-in, labelled as
such and never counted as proved beyond its bound.
"""
import hashlib
import json
import os
import re
import shutil
import subprocess
import sys
import tempfile
import time

HERE = os.path.dirname(os.path.dirname(os.path.abspath(__file__)))
KDIR = os.path.join(HERE, 'kani')
REPO = os.environ.get('VERIF_REPO', '/repo')
CACHE = os.path.join(HERE, '.cache', 'kani')

HTIMEOUT = ['600s']      # per-harness CBMC budget; the thorough tier raises it (lane())
HARNESS_RE = re.compile(r'//\s*@harness\s+(\w+)\s+props=([\w,]+)\s+kind=(\S+)(?:\s+tier=(\w+))?')


def harness_table():
    t = {}
    if not os.path.isdir(KDIR):
        return t
    for fn in sorted(os.listdir(KDIR)):
        if not fn.endswith('.rs'):
            continue
        mod = fn[:-3].split('.')[0]       # kani/<module>.rs and kani/<module>.<anything>.rs belong to the same source module
        txt = open(os.path.join(KDIR, fn)).read()
        lines = txt.split('\n')
        for i, line in enumerate(lines):
            m = HARNESS_RE.search(line)
            if m:
                doc = []
                j = i + 1
                while j < len(lines) and lines[j].startswith('//'):
                    doc.append(lines[j][2:].strip())
                    j += 1
                t[m.group(1)] = {'name': m.group(1), 'module': mod, 'props': m.group(2).split(','), 'kind': m.group(3),
                                 'tier': m.group(4) or 'quick', 'doc': ' '.join(doc)}
    return t


def _prop_harnesses():
    d = {}
    for h in harness_table().values():
        for p in h['props']:
            d.setdefault(p, []).append(h['name'])
    return d


PROP_HARNESSES = _prop_harnesses()


def src_path_of(mod):
    for cand in (os.path.join('src', mod + '.rs'), os.path.join('src', 'indicators', mod + '.rs')):
        if os.path.exists(os.path.join(REPO, cand)):
            return cand
    return None


def make_crate(dst, skip_modules=()):
    """scratch copy of /repo (sources only) with the harness modules appended"""
    shutil.copytree(os.path.join(REPO, 'src'), os.path.join(dst, 'src'))
    for f in ('Cargo.toml', 'Cargo.lock'):
        if os.path.exists(os.path.join(REPO, f)):
            shutil.copy(os.path.join(REPO, f), os.path.join(dst, f))
    for d in ('benches', 'examples', 'tests'):
        if os.path.isdir(os.path.join(REPO, d)):
            shutil.copytree(os.path.join(REPO, d), os.path.join(dst, d))
    os.makedirs(os.path.join(dst, '.cargo'), exist_ok=True)
    open(os.path.join(dst, '.cargo', 'config.toml'), 'w').write('[net]\noffline = true\n')
    missing = []
    bymod = {}
    for fn in sorted(os.listdir(KDIR)):
        if fn.endswith('.rs'):
            bymod.setdefault(fn[:-3].split('.')[0], []).append(fn)
    for mod, fns_ in sorted(bymod.items()):
        sp = src_path_of(mod)
        if mod in skip_modules:
            continue
        if sp is None:
            missing.append(mod)
            continue
        body = '\n'.join(open(os.path.join(KDIR, fn)).read() for fn in fns_)
        with open(os.path.join(dst, sp), 'a') as f:
            f.write('\n#[cfg(kani)]\n#[allow(unused_imports, dead_code)]\nmod verif_kani {\n    use super::*;\n    use crate::errors::TaError;\n    use crate::{Next, Reset, Period, Open, High, Low, Close, Volume};\n' + body + '\n}\n')
    return missing


def tree_hash():
    h = hashlib.sha256()
    for root in (os.path.join(REPO, 'src'), KDIR):
        for dp, dn, fns in sorted(os.walk(root)):
            dn.sort()
            for fn in sorted(fns):
                p = os.path.join(dp, fn)
                h.update(p.encode())
                h.update(open(p, 'rb').read())
    h.update(open(os.path.join(REPO, 'Cargo.toml'), 'rb').read())
    return h.hexdigest()


def parse_output(out, names):
    """per-harness result from cargo kani's stdout (terse format, possibly interleaved by `Thread k:` prefixes)"""
    res = {}
    cur = {}
    chunks = re.split(r'(?m)^(?:Thread (\d+): ?)', out)
    # chunks = [pre, tid, text, tid, text, ...]; without -j there are no Thread prefixes
    seq = []
    if len(chunks) == 1:
        for part in re.split(r'(?m)^(?=Checking harness )', out):
            seq.append(('0', part))
    else:
        for k in range(1, len(chunks) - 1, 2):
            seq.append((chunks[k], chunks[k + 1]))
    for tid, part in seq:
        m = re.match(r'\s*Checking harness (\S+?)\.\.\.', part)
        if m:
            cur[tid] = m.group(1)
            rest = part[m.end():]
            if 'VERIFICATION:-' not in rest:
                continue
            part = rest
        if 'VERIFICATION:-' not in part or tid not in cur:
            continue
        hname = cur[tid]
        short = hname.split('::')[-1]
        status = re.search(r'VERIFICATION:- (\w+)', part).group(1)
        tm = re.search(r'Verification Time: ([\d.]+)s', part)
        nchk = re.search(r'\*\* (\d+) of (\d+) failed', part)
        failed = re.findall(r'(?m)^Failed Checks: (.*)$', part)
        covers = re.findall(r'\*\* (\d+) of (\d+) cover properties satisfied', part)
        timed_out = 'CBMC timed out' in part or 'CBMC failed' in part
        res[short] = {'harness': hname, 'status': 'TIMEOUT' if timed_out else status, 'time_s': float(tm.group(1)) if tm else None,
                      'checks_total': int(nchk.group(2)) if nchk else None, 'checks_failed': int(nchk.group(1)) if nchk else None,
                      'failed_checks': failed[:10], 'covers': '/'.join(covers[0]) if covers else None,
                      'unwind_failure': 'unwinding assertion' in ' '.join(failed),
                      'tail': part[-3000:] if status != 'SUCCESSFUL' else ''}
    for n in names:
        res.setdefault(n, {'harness': n, 'status': 'MISSING', 'tail': out[-3000:]})
    return res


def run_harnesses(names, playback=False, timeout=3000):
    names = sorted(set(names))
    key = hashlib.sha256((tree_hash() + '|' + ','.join(names)).encode()).hexdigest()
    cpath = os.path.join(CACHE, key + '.json')
    if os.path.exists(cpath) and not os.environ.get('VERIF_NO_CACHE') and not playback:
        r = json.load(open(cpath))
        r['cache'] = 'hit'
        return r
    return _run_harnesses(names, playback, timeout, cpath, ())


def _run_harnesses(names, playback, timeout, cpath, skip):
    table = harness_table()
    d = tempfile.mkdtemp(prefix='taverif-kani-')
    try:
        missing = make_crate(d, skip)
        names_run = [n for n in names if table.get(n, {}).get('module') not in skip]
        cmd = ['timeout', str(timeout), 'cargo', 'kani', '-Z', 'function-contracts', '-Z', 'stubbing'] + ([] if playback else ['-j', '8']) + ['--output-format', 'terse', '--no-overflow-checks', '-Z', 'unstable-options', '--harness-timeout', os.environ.get('VERIF_KANI_HTIMEOUT', HTIMEOUT[0])]
        if playback:
            cmd += ['-Z', 'concrete-playback', '--concrete-playback=print']
        for n in names_run:
            cmd += ['--harness', n]
        env = dict(os.environ)
        env['CARGO_NET_OFFLINE'] = 'true'
        env['CARGO_TARGET_DIR'] = os.path.join(d, 'target')
        t0 = time.time()
        p = subprocess.run(cmd, cwd=d, capture_output=True, text=True, env=env)
        wall = time.time() - t0
        out = p.stdout + '\n' + p.stderr
        if p.returncode != 0 and 'Checking harness' not in out and not skip:
            # the crate does not build with the harness modules: find the modules named in the compiler errors and retry without them
            bad = set()
            for blk in re.split(r'\n\s*\n', out):
                if re.match(r'\s*error', blk):
                    for mm in re.finditer(r'-->\s*src/(?:indicators/)?(\w+)\.rs:(\d+)', blk):
                        bad.add(mm.group(1))
            bad = tuple(sorted(b for b in bad if any(f.split('.')[0] == b for f in os.listdir(KDIR))))
            if bad:
                shutil.rmtree(d, ignore_errors=True)
                r = _run_harnesses(names, playback, timeout, None, bad)
                r['skipped_modules'] = list(bad)
                for n in names:
                    if table.get(n, {}).get('module') in bad:
                        r['results'][n] = {'harness': n, 'status': 'HARNESS_DOES_NOT_COMPILE', 'tail': out[-1500:]}
                if cpath and not playback:
                    os.makedirs(CACHE, exist_ok=True)
                    json.dump(r, open(cpath, 'w'))
                return r
        r = {'rc': p.returncode, 'wall_s': round(wall, 1), 'cmd': ' '.join(cmd), 'results': parse_output(out, names_run), 'missing_modules': missing,
             'cache': 'miss', 'raw_tail': out[-4000:]}
        if playback:
            r['raw'] = out
        if not playback and cpath:
            os.makedirs(CACHE, exist_ok=True)
            json.dump(r, open(cpath, 'w'))
        return r
    finally:
        shutil.rmtree(d, ignore_errors=True)


def lane(pid, tier, cov, ledger, findings, assumptions):
    import driver
    out = {'violations': [], 'undecided': [], 'known': []}
    table = harness_table()
    names = [h['name'] for h in table.values() if pid in h['props'] and (tier == 'thorough' or h['tier'] == 'quick')]
    if not names:
        return out
    HTIMEOUT[0] = '2400s' if tier == 'thorough' else '600s'
    if os.environ.get('VERIF_KANI_BATCH'):
        # one cargo-kani invocation for every harness of the tier (cached per tree state); used when all checks are run in a row
        allnames = [h['name'] for h in table.values() if (tier == 'thorough' or h['tier'] == 'quick')]
        r = run_harnesses(allnames)
    else:
        r = run_harnesses(names)
    open_f = {(f['property'], f['obligation']): f for f in findings.get('open', [])}
    n_ob = n_ok = 0
    samples = []
    for n in names:
        h = table[n]
        res = r['results'].get(n, {'status': 'MISSING'})
        ob_id = 'kani::%s::%s' % (h['module'], n)
        n_ob += 1
        if res['status'] == 'SUCCESSFUL':
            n_ok += 1
            samples.append({'obligation': ob_id, 'kind': h['kind'], 'what': h['doc'][:300], 'time_s': res.get('time_s'), 'checks': res.get('checks_total'), 'covers': res.get('covers')})
            continue
        if res['status'] == 'FAILED' and not res.get('unwind_failure'):
            if (pid, ob_id) in open_f:
                out['known'].append('%s -- %s' % (ob_id, open_f[(pid, ob_id)].get('what', '')))
                continue
            if ob_id not in ledger:
                out['undecided'].append('%s fails but never verified on the baseline tree (not in ledger)' % ob_id)
                continue
            # counterexample extraction + native replay are expensive (a fresh build each): cached per tree state and harness,
            # and at most 3 new extractions per run (further failing harnesses are reported without a concrete input)
            pkey = hashlib.sha256((tree_hash() + '|playback|' + n).encode()).hexdigest()
            ppath = os.path.join(CACHE, 'pb-' + pkey + '.json')
            cached_pb = json.load(open(ppath)) if os.path.exists(ppath) and not os.environ.get('VERIF_NO_CACHE') else None
            if cached_pb is None and out.setdefault('_pb_count', 0) >= 3:
                cex = None
            elif cached_pb is not None:
                cex = cached_pb.get('cex')
            else:
                out['_pb_count'] = out.get('_pb_count', 0) + 1
                pb = run_harnesses([n], playback=True)
                cex = extract_playback(pb.get('raw', ''))
            vals = re.findall(r'(?m)^\s*//\s*(\S.*)$', cex or '')
            payload = {'property': pid, 'obligation': ob_id, 'lane': 'kani', 'harness': n, 'module': h['module'], 'kind': h['kind'],
                       'failing_input_values_in_any_order': vals,
                       'what': h['doc'], 'failed_checks': res.get('failed_checks'), 'verifier_output': res.get('tail', '')[-2500:],
                       'counterexample': cex, 'replay': 'python3 /verif/check.py --replay <this file>  (runs the concrete values natively against the real code)'}
            rep = None
            if cex:
                rep = cached_pb.get('native_replay') if cached_pb else native_replay(h, n, cex)
                payload['native_replay'] = rep
                if not cached_pb:
                    os.makedirs(CACHE, exist_ok=True)
                    json.dump({'cex': cex, 'native_replay': rep}, open(ppath, 'w'))
            path = driver.write_replay(pid, ob_id, payload)
            out['violations'].append((ob_id, path, bool(cex)))
            continue
        out['undecided'].append('%s: kani status %s %s' % (ob_id, res['status'], (res.get('failed_checks') or [''])[0][:120]))
    cov['obligations'] += n_ob
    cov['discharged'] += n_ok
    cov['samples'] += samples[:8]
    cov['lanes'].append('kani')
    cov['back_ends']['kani 0.68 / CBMC (bit-precise IEEE-754)'] = {
        'harnesses': n_ob, 'successful': n_ok, 'wall_s': r.get('wall_s'), 'cache': r.get('cache'),
        'per_harness': {n: {'status': r['results'][n]['status'], 'time_s': r['results'][n].get('time_s'), 'kind': table[n]['kind'], 'checks': r['results'][n].get('checks_total')} for n in names if n in r['results']},
        'cmd': r.get('cmd')}
    out.pop('_pb_count', None)
    bounded = [n for n in names if table[n]['kind'].startswith('bounded')]
    if bounded:
        cov['bounded_stand_ins'] = {n: table[n]['kind'] for n in bounded}
        assumptions.append('Kani harnesses labelled bounded(...) are bounded stand-ins with the stated period bound (all stored values symbolic); they are not unbounded proofs: ' + ', '.join(bounded))
    assumptions.append('Kani/CBMC/CaDiCaL trusted; Kani harnesses construct states fieldwise from kani::any() (a superset of the reachable states)')
    return out


def extract_playback(raw):
    """the generated concrete-playback unit test(s), verbatim"""
    m = re.search(r'(#\[test\]\s*fn kani_concrete_playback_\w+\(\)\s*\{.*?\n\}\n)', raw, re.S)
    return m.group(1) if m else None


def native_replay(h, name, test_src):
    """compile the concrete-playback test into the scratch crate and run it natively against the real code"""
    d = tempfile.mkdtemp(prefix='taverif-kanipb-')
    try:
        make_crate(d)
        sp = src_path_of(h['module'])
        txt = open(os.path.join(d, sp)).read()
        # put the test inside the harness module (last closing brace)
        k = txt.rstrip().rfind('}')
        txt = txt[:k] + '\n' + test_src + '\n}\n'
        open(os.path.join(d, sp), 'w').write(txt)
        env = dict(os.environ)
        env['CARGO_NET_OFFLINE'] = 'true'
        env['CARGO_TARGET_DIR'] = os.path.join(d, 'target')
        p = subprocess.run(['timeout', '900', 'cargo', 'kani', 'playback', '-Z', 'concrete-playback', '--', 'kani_concrete_playback'],
                           cwd=d, capture_output=True, text=True, env=env)
        out = (p.stdout + p.stderr)
        keep = [l for l in out.split('\n') if re.search(r'panicked|assertion|test result|^test |FAILED|left:|right:|index out of bounds|overflow|unwrap', l)]
        # a panic inside kani's playback runtime (concrete_playback.rs) means the recorded values ran out: execution went PAST the
        # point where the recorded failure happened, i.e. the failure did not reproduce on this tree
        pan = [l for l in out.split('\n') if 'panicked at' in l]
        exhausted = bool(pan) and all('concrete_playback.rs' in l for l in pan)
        failed = ('test result: FAILED' in out or bool(pan)) and not exhausted
        return {'rc': p.returncode, 'failed_natively': failed, 'recorded_values_exhausted_without_failure': exhausted,
                'relevant_output': keep[:30], 'output_tail': out[-800:]}
    finally:
        shutil.rmtree(d, ignore_errors=True)


def replay(p):
    table = harness_table()
    h = table.get(p['harness'])
    if not h:
        print('harness no longer exists')
        return 2
    if p.get('counterexample'):
        r = native_replay(h, p['harness'], p['counterexample'])
        print(r['output_tail'])
        return 1 if r['failed_natively'] else 0
    r = run_harnesses([p['harness']])
    print(json.dumps(r['results'], indent=1)[:3000])
    return 0 if r['results'][p['harness']]['status'] == 'SUCCESSFUL' else 1
