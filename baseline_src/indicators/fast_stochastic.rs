use std::fmt;

use crate::errors::Result;
use crate::indicators::{Maximum, Minimum};
use crate::{Close, High, Low, Next, Period, Reset};
#[cfg(feature = "serde")]
use serde::{Deserialize, Serialize};

/// Fast stochastic oscillator.
///
/// The stochastic oscillator is a momentum indicator comparing the closing price
/// of a security to the range of its prices over a certain period of time.
///
/// # Formula
///
/// ![Fast stochastic oscillator formula](https://wikimedia.org/api/rest_v1/media/math/render/svg/5a419041034a8044308c999f85661a08bcf91b1d)
///
/// Where:
///
/// * \%K<sub>t</sub> - value of fast stochastic oscillator
/// * C<sub>t</sub> - close price of the current period
/// * L<sub>n</sub> - lowest price for the last _n_ periods
/// * H<sub>n</sub> - highest price for the last _n_ periods
///
///
/// # Parameters
///
/// * _period_ - number of periods (integer greater than 0). Default is 14.
///
/// # Example
///
/// ```
/// use ta::indicators::FastStochastic;
/// use ta::Next;
///
/// let mut stoch = FastStochastic::new(5).unwrap();
/// assert_eq!(stoch.next(20.0), 50.0);
/// assert_eq!(stoch.next(30.0), 100.0);
/// assert_eq!(stoch.next(40.0), 100.0);
/// assert_eq!(stoch.next(35.0), 75.0);
/// assert_eq!(stoch.next(15.0), 0.0);
/// ```
#[cfg_attr(feature = "serde", derive(Serialize, Deserialize))]
#[derive(Debug, Clone)]
pub struct FastStochastic {
    period: usize,
    minimum: Minimum,
    maximum: Maximum,
}

impl FastStochastic {
    pub fn new(period: usize) -> Result<Self> {
        Ok(Self {
            period,
            minimum: Minimum::new(period)?,
            maximum: Maximum::new(period)?,
        })
    }
}

impl Period for FastStochastic {
    fn period(&self) -> usize {
        self.period
    }
}

impl Next<f64> for FastStochastic {
    type Output = f64;

    fn next(&mut self, input: f64) -> Self::Output {
        let min = self.minimum.next(input);
        let max = self.maximum.next(input);

        if min == max {
            // When only 1 input was given, than min and max are the same,
            // therefore it makes sense to return 50
            50.0
        } else {
            (input - min) / (max - min) * 100.0
        }
    }
}

impl<T: High + Low + Close> Next<&T> for FastStochastic {
    type Output = f64;

    fn next(&mut self, input: &T) -> Self::Output {
        let highest = self.maximum.next(input.high());
        let lowest = self.minimum.next(input.low());
        let close = input.close();

        if highest == lowest {
            // To avoid division by zero, return 50.0
            50.0
        } else {
            (close - lowest) / (highest - lowest) * 100.0
        }
    }
}

impl Reset for FastStochastic {
    fn reset(&mut self) {
        self.minimum.reset();
        self.maximum.reset();
    }
}

impl Default for FastStochastic {
    fn default() -> Self {
        Self::new(14).unwrap()
    }
}

impl fmt::Display for FastStochastic {
    fn fmt(&self, f: &mut fmt::Formatter) -> fmt::Result {
        write!(f, "FAST_STOCH({})", self.period)
    }
}

#[cfg(test)]
mod tests {
    use super::*;
    use crate::test_helper::*;

    test_indicator!(FastStochastic);

    #[test]
    fn test_new() {
        assert!(FastStochastic::new(0).is_err());
        assert!(FastStochastic::new(1).is_ok());
    }

    #[test]
    fn test_next_with_f64() {
        let mut stoch = FastStochastic::new(3).unwrap();
        assert_eq!(stoch.next(0.0), 50.0);
        assert_eq!(stoch.next(200.0), 100.0);
        assert_eq!(stoch.next(100.0), 50.0);
        assert_eq!(stoch.next(120.0), 20.0);
        assert_eq!(stoch.next(115.0), 75.0);
    }

    #[test]
    fn test_next_with_bars() {
        let test_data = vec![
            // high, low , close, expected
            (20.0, 20.0, 20.0, 50.0), // min = 20, max = 20
            (30.0, 10.0, 25.0, 75.0), // min = 10, max = 30
            (40.0, 20.0, 16.0, 20.0), // min = 10, max = 40
            (35.0, 15.0, 19.0, 30.0), // min = 10, max = 40
            (30.0, 20.0, 25.0, 40.0), // min = 15, max = 40
            (35.0, 25.0, 30.0, 75.0), // min = 15, max = 35
        ];

        let mut stoch = FastStochastic::new(3).unwrap();

        for (high, low, close, expected) in test_data {
            let input_bar = Bar::new().high(high).low(low).close(close);
            assert_eq!(stoch.next(&input_bar), expected);
        }
    }

    #[test]
    fn test_reset() {
        let mut indicator = FastStochastic::new(10).unwrap();
        assert_eq!(indicator.next(10.0), 50.0);
        assert_eq!(indicator.next(210.0), 100.0);
        assert_eq!(indicator.next(10.0), 0.0);
        assert_eq!(indicator.next(60.0), 25.0);

        indicator.reset();
        assert_eq!(indicator.next(10.0), 50.0);
        assert_eq!(indicator.next(20.0), 100.0);
        assert_eq!(indicator.next(12.5), 25.0);
    }

    #[test]
    fn test_default() {
        FastStochastic::default();
    }

    #[test]
    fn test_display() {
        let indicator = FastStochastic::new(21).unwrap();
        assert_eq!(format!("{}", indicator), "FAST_STOCH(21)");
    }
}
