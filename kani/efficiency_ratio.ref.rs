fn vk_small_int() -> f64 { let v: i8 = kani::any(); kani::assume(v >= -4 && v <= 4); v as f64 }

// differential check against the textbook definition on the recorded history, after every prefix
fn vk_er_matches_reference<const P: usize, const K: usize>() {
    let mut ind = EfficiencyRatio::new(P).unwrap();
    let mut hist = [0.0f64; K];
    let mut t = 0;
    while t < K {
        let x = vk_small_int();
        hist[t] = x;
        let out = ind.next(x);
        let n = if t + 1 < P { t + 1 } else { P };       // the window is exactly the last min(t+1, P) inputs
        let lo = t + 1 - n;
        let first = if t == 0 { 0.0 } else { let m = if t < P { t } else { P }; hist[t - m] };   // the input before the window (0 before any)
        let mut vol = 0.0;
        let mut prev = first;
        let mut j = lo;
        while j <= t { vol += (prev - hist[j]).abs(); prev = hist[j]; j += 1; }
        if vol == 0.0 { assert!(out == 1.0); } else { assert!(out == (first - x).abs() / vol); }
        assert!(out >= 0.0 && out <= 1.0);
        t += 1;
    }
}
// @harness vk_er_matches_reference_p1 props=C03,C07,C08,C17 kind=bounded(period=1,steps=3) tier=quick
#[kani::proof] #[kani::unwind(6)] fn vk_er_matches_reference_p1() { vk_er_matches_reference::<1, 3>() }
// @harness vk_er_matches_reference_p2 props=C03,C07,C08,C17 kind=bounded(period=2,steps=5) tier=thorough
#[kani::proof] #[kani::unwind(8)] fn vk_er_matches_reference_p2() { vk_er_matches_reference::<2, 5>() }
