use std::fmt;

use crate::errors::{Result, TaError};
use crate::{High, Next, Period, Reset};
#[cfg(feature = "serde")]
use serde::{Deserialize, Serialize};

/// Returns the highest value in a given time frame.
///
/// # Parameters
///
/// * _period_ - size of the time frame (integer greater than 0). Default value is 14.
///
/// # Example
///
/// ```
/// use ta::indicators::Maximum;
/// use ta::Next;
///
/// let mut max = Maximum::new(3).unwrap();
/// assert_eq!(max.next(7.0), 7.0);
/// assert_eq!(max.next(5.0), 7.0);
/// assert_eq!(max.next(4.0), 7.0);
/// assert_eq!(max.next(4.0), 5.0);
/// assert_eq!(max.next(8.0), 8.0);
/// ```
#[cfg_attr(feature = "serde", derive(Serialize, Deserialize))]
#[derive(Debug, Clone)]
pub struct Maximum {
    period: usize,
    max_index: usize,
    cur_index: usize,
    deque: Box<[f64]>,
}

impl Maximum {
    pub fn new(period: usize) -> Result<Self> {
        match period {
            0 => Err(TaError::InvalidParameter),
            _ => Ok(Self {
                period,
                max_index: 0,
                cur_index: 0,
                deque: vec![f64::NEG_INFINITY; period].into_boxed_slice(),
            }),
        }
    }

    fn find_max_index(&self) -> usize {
        let mut max = f64::NEG_INFINITY;
        let mut index: usize = 0;

        for (i, &val) in self.deque.iter().enumerate() {
            if val > max {
                max = val;
                index = i;
            }
        }

        index
    }
}

impl Period for Maximum {
    fn period(&self) -> usize {
        self.period
    }
}

impl Next<f64> for Maximum {
    type Output = f64;

    fn next(&mut self, input: f64) -> Self::Output {
        self.deque[self.cur_index] = input;

        if input > self.deque[self.max_index] {
            self.max_index = self.cur_index;
        } else if self.max_index == self.cur_index {
            self.max_index = self.find_max_index();
        }

        self.cur_index = if self.cur_index + 1 < self.period {
            self.cur_index + 1
        } else {
            0
        };

        self.deque[self.max_index]
    }
}

impl<T: High> Next<&T> for Maximum {
    type Output = f64;

    fn next(&mut self, input: &T) -> Self::Output {
        self.next(input.high())
    }
}

impl Reset for Maximum {
    fn reset(&mut self) {
        for i in 0..self.period {
            self.deque[i] = f64::NEG_INFINITY;
        }
    }
}

impl Default for Maximum {
    fn default() -> Self {
        Self::new(14).unwrap()
    }
}

impl fmt::Display for Maximum {
    fn fmt(&self, f: &mut fmt::Formatter) -> fmt::Result {
        write!(f, "MAX({})", self.period)
    }
}

#[cfg(test)]
mod tests {
    use super::*;
    use crate::test_helper::*;

    test_indicator!(Maximum);

    #[test]
    fn test_new() {
        assert!(Maximum::new(0).is_err());
        assert!(Maximum::new(1).is_ok());
    }

    #[test]
    fn test_next() {
        let mut max = Maximum::new(3).unwrap();

        assert_eq!(max.next(4.0), 4.0);
        assert_eq!(max.next(1.2), 4.0);
        assert_eq!(max.next(5.0), 5.0);
        assert_eq!(max.next(3.0), 5.0);
        assert_eq!(max.next(4.0), 5.0);
        assert_eq!(max.next(0.0), 4.0);
        assert_eq!(max.next(-1.0), 4.0);
        assert_eq!(max.next(-2.0), 0.0);
        assert_eq!(max.next(-1.5), -1.0);
    }

    #[test]
    fn test_next_with_bars() {
        fn bar(high: f64) -> Bar {
            Bar::new().high(high)
        }

        let mut max = Maximum::new(2).unwrap();

        assert_eq!(max.next(&bar(1.1)), 1.1);
        assert_eq!(max.next(&bar(4.0)), 4.0);
        assert_eq!(max.next(&bar(3.5)), 4.0);
        assert_eq!(max.next(&bar(2.0)), 3.5);
    }

    #[test]
    fn test_reset() {
        let mut max = Maximum::new(100).unwrap();
        assert_eq!(max.next(4.0), 4.0);
        assert_eq!(max.next(10.0), 10.0);
        assert_eq!(max.next(4.0), 10.0);

        max.reset();
        assert_eq!(max.next(4.0), 4.0);
    }

    #[test]
    fn test_default() {
        Maximum::default();
    }

    #[test]
    fn test_display() {
        let indicator = Maximum::new(7).unwrap();
        assert_eq!(format!("{}", indicator), "MAX(7)");
    }
}
