verus! {
pub trait Next<T> {
    type Output;
    spec fn next_req(&self, input: T) -> bool;
    spec fn next_ens(&self, post: &Self, input: T, out: Self::Output) -> bool;
    fn next(&mut self, input: T) -> (out: Self::Output)
        requires old(self).next_req(input),
        ensures old(self).next_ens(final(self), input, out);
}
pub uninterp spec fn sqrt_spec(x: f64) -> f64;
pub assume_specification [f64::sqrt] (x: f64) -> (r: f64) ensures r == sqrt_spec(x);
pub broadcast axiom fn ax_sqrt(x: f64)
   ensures fin(x) && rv(x) >= 0real ==> fin(#[trigger] sqrt_spec(x)) && rv(sqrt_spec(x)) >= 0real && rv(sqrt_spec(x)) * rv(sqrt_spec(x)) == rv(x);

pub open spec fn seq_sumsq(s: Seq<f64>) -> real decreases s.len() {
    if s.len() == 0 { 0real } else { seq_sumsq(s.drop_last()) + rv(s.last()) * rv(s.last()) }
}
// sum of squared deviations about mu
pub open spec fn seq_sqdev(s: Seq<f64>, mu: real) -> real decreases s.len() {
    if s.len() == 0 { 0real } else { seq_sqdev(s.drop_last(), mu) + (rv(s.last()) - mu) * (rv(s.last()) - mu) }
}
pub proof fn lemma_sumsq_push(s: Seq<f64>, x: f64)
    ensures seq_sumsq(s.push(x)) == seq_sumsq(s) + rv(x) * rv(x)
{ assert(s.push(x).drop_last() =~= s); }
pub proof fn lemma_sumsq_drop_first(s: Seq<f64>)
    requires s.len() >= 1
    ensures seq_sumsq(s.subrange(1, s.len() as int)) == seq_sumsq(s) - rv(s[0]) * rv(s[0])
    decreases s.len()
{
    if s.len() == 1 {
        assert(s.drop_last() =~= Seq::<f64>::empty());
        assert(s.subrange(1, 1) =~= Seq::<f64>::empty());
    } else {
        lemma_sumsq_drop_first(s.drop_last());
        assert(s.subrange(1, s.len() as int).drop_last() =~= s.drop_last().subrange(1, s.len() - 1));
    }
}
pub proof fn lemma_sqdev_expand(s: Seq<f64>, mu: real)
    ensures seq_sqdev(s, mu) == seq_sumsq(s) - 2real * mu * seq_sum(s) + (s.len() as real) * mu * mu
    decreases s.len()
{
    if s.len() > 0 {
        lemma_sqdev_expand(s.drop_last(), mu);
        let x = rv(s.last()); let n1 = (s.len() - 1) as real; let a = seq_sumsq(s.drop_last()); let b = seq_sum(s.drop_last());
        assert(s.len() as real == n1 + 1real);
        assert((a - 2real * mu * b + n1 * mu * mu) + (x - mu) * (x - mu) == (a + x * x) - 2real * mu * (b + x) + (n1 + 1real) * mu * mu) by(nonlinear_arith);
    }
}
pub proof fn lemma_sqdev_nonneg(s: Seq<f64>, mu: real)
    ensures seq_sqdev(s, mu) >= 0real
    decreases s.len()
{
    if s.len() > 0 { lemma_sqdev_nonneg(s.drop_last(), mu); 
        let d = rv(s.last()) - mu; assert(d * d >= 0real) by(nonlinear_arith); }
}


pub proof fn alg_slide_a(d: real, o: real, m0: real, m1: real)
   ensures ((o + d) - o)*((o + d) - m1 + o - m0) - ((o + d)*(o + d) - o*o) == 0real - d*(m1 + m0)
{ assert(((o + d) - o)*((o + d) - m1 + o - m0) - ((o + d)*(o + d) - o*o) == 0real - d*(m1 + m0)) by(nonlinear_arith); }
pub proof fn alg_slide_b(n: real, m0: real, m1: real)
   ensures (0real - n*m0*m0) - (n*m1 - n*m0)*(m1 + m0) + n*m1*m1 == 0real
{ assert((0real - n*m0*m0) - (n*m1 - n*m0)*(m1 + m0) + n*m1*m1 == 0real) by(nonlinear_arith); }
pub axiom fn alg_grow(c: real, m0: real, m1: real)
   ensures (0real - c*m0*m0) + ((m1*(c+1real) - m0*c) - m0)*((m1*(c+1real) - m0*c) - m1) == (m1*(c+1real) - m0*c)*(m1*(c+1real) - m0*c) - (c+1real)*m1*m1;
pub proof fn alg_mean_update(m0: real, d: real, c: real) 
   requires c != 0real
   ensures (m0 + d / c) * c == m0 * c + d
{ assert((m0 + d / c) * c == m0 * c + d) by(nonlinear_arith) requires c != 0real; }
pub proof fn alg_distr1(m: real, c: real) ensures m*(c+1real) == m*c + m
{ assert(m*(c+1real) == m*c + m) by(nonlinear_arith); }

pub open spec fn mean_ok(m: real, c: real, s: real) -> bool { m * c == s }
pub open spec fn m2_ok(m2: real, q: real, c: real, m: real) -> bool { m2 == q - c*m*m }

pub proof fn step_grow(c: real, s0: real, q0: real, m0: real, m2_0: real, x: real, m1: real, m2_1: real)
    requires c >= 0real, mean_ok(m0, c, s0), m2_ok(m2_0, q0, c, m0),
        m1 == m0 + (x - m0) / (c + 1real),
        m2_1 == m2_0 + (x - m0) * (x - m1),
    ensures mean_ok(m1, c + 1real, s0 + x), m2_ok(m2_1, q0 + x*x, c + 1real, m1)
{
    alg_mean_update(m0, x - m0, c + 1real);
    alg_distr1(m0, c);
    assert(m1 * (c + 1real) == m0 * c + x);
    assert(x == m1*(c+1real) - m0*c);
    alg_grow(c, m0, m1);
}
pub proof fn step_slide(n: real, s0: real, q0: real, m0: real, m2_0: real, x: real, o: real, m1: real, m2_1: real)
    requires n >= 1real, mean_ok(m0, n, s0), m2_ok(m2_0, q0, n, m0),
        m1 == m0 + (x - o) / n,
        m2_1 == m2_0 + (x - o) * (x - m1 + o - m0),
    ensures mean_ok(m1, n, s0 - o + x), m2_ok(m2_1, q0 - o*o + x*x, n, m1)
{
    alg_mean_update(m0, x - o, n);
    assert(m1 * n == m0 * n + (x - o));
    let d = x - o;
    assert(x == o + d);
    alg_slide_a(d, o, m0, m1);
    alg_slide_b(n, m0, m1);
    assert(d == m1 * n - m0 * n);
    assert(m1 * n == n * m1 && m0 * n == n * m0) by(nonlinear_arith);
}

pub proof fn alg_div_cancel(a: real, b: real)
   requires b != 0real
   ensures (a / b) * b == a
{ assert((a / b) * b == a) by(nonlinear_arith) requires b != 0real; }
pub proof fn alg_div_nonneg(a: real, b: real)
   requires b > 0real, a >= 0real
   ensures a / b >= 0real
{ assert(a / b >= 0real) by(nonlinear_arith) requires b > 0real, a >= 0real; }

pub proof fn lemma_sqdev_at_mean(s: Seq<f64>, mu: real)
    requires mean_ok(mu, s.len() as real, seq_sum(s))
    ensures seq_sqdev(s, mu) == seq_sumsq(s) - (s.len() as real) * mu * mu
{
    lemma_sqdev_expand(s, mu);
    let c = s.len() as real; let q = seq_sumsq(s);
    assert(q - 2real * mu * (mu * c) + c * mu * mu == q - c * mu * mu) by(nonlinear_arith);
}
pub struct Sd { period: usize, index: usize, count: usize, m: f64, m2: f64, deque: Box<[f64]> }

impl Sd {
    pub closed spec fn win(&self) -> Seq<f64> { ring_win(self.deque@, self.index as int, self.count as int) }
    pub closed spec fn per(&self) -> int { self.period as int }
    pub closed spec fn wf(&self) -> bool {
        &&& ring_ok(self.deque@, self.index as int, self.count as int)
        &&& self.deque@.len() == self.period
        &&& fin(self.m) && fin(self.m2)
        &&& all_fin(self.deque@)
        &&& mean_ok(rv(self.m), self.count as real, seq_sum(self.win()))
        &&& m2_ok(rv(self.m2), seq_sumsq(self.win()), self.count as real, rv(self.m))
    }
    pub closed spec fn mean_val(&self) -> real { rv(self.m) }
}
impl Next<f64> for Sd {
    type Output = f64;
    open spec fn next_req(&self, input: f64) -> bool { self.wf() && fin(input) }
    open spec fn next_ens(&self, post: &Self, input: f64, out: f64) -> bool { 
        &&& post.wf() && post.per() == self.per() 
        &&& post.win() == push_trunc(self.win(), input, self.per())
        &&& mean_ok(post.mean_val(), post.win().len() as real, seq_sum(post.win()))
        &&& fin(out) && rv(out) >= 0real && rv(out) * rv(out) * (post.win().len() as real) == seq_sqdev(post.win(), post.mean_val())
    }
    fn next(&mut self, input: f64) -> Self::Output {
        broadcast use f64_axioms; broadcast use ax_sqrt;
        proof { lemma_ring_step(self.deque@, self.index as int, self.count as int, input); 
                if self.count == self.period { lemma_sum_drop_first(self.win()); lemma_sum_push(self.win().subrange(1, self.win().len() as int), input);
                     lemma_sumsq_drop_first(self.win()); lemma_sumsq_push(self.win().subrange(1, self.win().len() as int), input); }
                else { lemma_sum_push(self.win(), input); lemma_sumsq_push(self.win(), input); }
                ax_lit_0();
        }
        let old_val = self.deque[self.index];
        self.deque[self.index] = input;

        self.index = if self.index + 1 < self.period {
            self.index + 1
        } else {
            0
        };

        if self.count < self.period {
            self.count = self.count + (1);
            let delta = input - self.m;
            self.m = self.m + (delta / usize_as_f64(self.count));
            let delta2 = input - self.m;
            self.m2 = self.m2 + (delta * delta2);
            proof {
                step_grow(old(self).count as real, seq_sum(old(self).win()), seq_sumsq(old(self).win()), rv(old(self).m), rv(old(self).m2), rv(input), rv(self.m), rv(self.m2));
            }
        } else {
            let delta = input - old_val;
            let old_m = self.m;
            self.m = self.m + (delta / usize_as_f64(self.period));
            let delta2 = input - self.m + old_val - old_m;
            self.m2 = self.m2 + (delta * delta2);
            proof {
                assert(old_val == old(self).win()[0]);
                step_slide(self.period as real, seq_sum(old(self).win()), seq_sumsq(old(self).win()), rv(old(self).m), rv(old(self).m2), rv(input), rv(old_val), rv(self.m), rv(self.m2));
            }
        }
        proof { 
            assert(self.win() =~= push_trunc(old(self).win(), input, old(self).per()));
            assert(mean_ok(rv(self.m), self.count as real, seq_sum(self.win())));
            assert(m2_ok(rv(self.m2), seq_sumsq(self.win()), self.count as real, rv(self.m)));
            lemma_sqdev_at_mean(self.win(), rv(self.m));
            lemma_sqdev_nonneg(self.win(), rv(self.m)); 
        }
        if self.m2 < 0.0 {
            self.m2 = 0.0;
        }
        proof {
            alg_div_cancel(rv(self.m2), self.count as real);
            alg_div_nonneg(rv(self.m2), self.count as real);
        }
        (self.m2 / usize_as_f64(self.count)).sqrt()
    }
}
}
fn main() {}
