//! ta is a Rust library for technical analysis. It provides number of technical indicators
//! that can be used to build trading strategies for stock markets, futures, forex, cryptocurrencies, etc.
//!
//! Every indicator is implemented as a data structure with fields, that define parameters and
//! state.
//!
//! Every indicator implements [Next<T>](trait.Next.html) and [Reset](trait.Reset.html) traits,
//! which are the core concept of the library.
//!
//! Since `Next<T>` is a generic trait, most of the indicators can work with both input types: `f64` and more complex
//! structures like [DataItem](struct.DataItem.html).
//!
//! # Example
//! ```
//! use ta::indicators::ExponentialMovingAverage;
//! use ta::Next;
//!
//! // it can return an error, when an invalid period is passed (e.g. 0)
//! let mut ema = ExponentialMovingAverage::new(3).unwrap();
//!
//! assert_eq!(ema.next(2.0), 2.0);
//! assert_eq!(ema.next(5.0), 3.5);
//! assert_eq!(ema.next(1.0), 2.25);
//! assert_eq!(ema.next(6.25), 4.25);
//! ```
//!
//! # List of indicators
//!
//! * Trend
//!   * [Exponential Moving Average (EMA)](crate::indicators::ExponentialMovingAverage)
//!   * [Simple Moving Average (SMA)](crate::indicators::SimpleMovingAverage)
//!   * [Weighted Moving Average (WMA)](crate::indicators::WeightedMovingAverage)
//! * Oscillators
//!   * [Relative Strength Index (RSI)](indicators/struct.RelativeStrengthIndex.html)
//!   * [Fast Stochastic](indicators/struct.FastStochastic.html)
//!   * [Slow Stochastic](indicators/struct.SlowStochastic.html)
//!   * [Moving Average Convergence Divergence (MACD)](indicators/struct.MovingAverageConvergenceDivergence.html)
//!   * [Percentage Price Oscillator (PPO)](indicators/struct.PercentagePriceOscillator.html)
//!   * [Commodity Channel Index (CCI)](indicators/struct.CommodityChannelIndex.html)
//!   * [Money Flow Index (MFI)](indicators/struct.MoneyFlowIndex.html)
//! * Other
//!   * [Standard Deviation (SD)](indicators/struct.StandardDeviation.html)
//!   * [Mean Absolute Deviation (MAD)](indicators/struct.MeanAbsoluteDeviation.html)
//!   * [Bollinger Bands (BB)](indicators/struct.BollingerBands.html)
//!   * [Chandelier Exit (CE)](indicators/struct.ChandelierExit.html)
//!   * [Keltner Channel (KC)](indicators/struct.KeltnerChannel.html)
//!   * [Maximum](indicators/struct.Maximum.html)
//!   * [Minimum](indicators/struct.Minimum.html)
//!   * [True Range](indicators/struct.TrueRange.html)
//!   * [Average True Range (ATR)](indicators/struct.AverageTrueRange.html)
//!   * [Efficiency Ratio (ER)](indicators/struct.EfficiencyRatio.html)
//!   * [Rate of Change (ROC)](indicators/struct.RateOfChange.html)
//!   * [On Balance Volume (OBV)](indicators/struct.OnBalanceVolume.html)
//!
#[cfg(test)]
#[macro_use]
mod test_helper;

mod helpers;

pub mod errors;
pub mod indicators;

mod traits;
pub use crate::traits::*;

mod data_item;
pub use crate::data_item::DataItem;
