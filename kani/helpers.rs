// @harness vk_max3_spec props=C02 kind=complete tier=quick
// max3 returns one of its arguments, and none of them exceeds it (all non-NaN f64, bit-precise)
#[kani::proof]
fn vk_max3_spec() {
    let (a, b, c): (f64, f64, f64) = (kani::any(), kani::any(), kani::any());
    kani::assume(!a.is_nan() && !b.is_nan() && !c.is_nan());
    let r = max3(a, b, c);
    assert!(r == a || r == b || r == c);
    assert!(r >= a && r >= b && r >= c);
}
