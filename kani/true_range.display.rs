
// @harness vk_tr_display props=C11 kind=bounded(concrete-parameters) tier=thorough
// Display renders NAME(params): TRUE_RANGE() (concrete parameters only)
#[kani::proof]
#[kani::unwind(40)]
fn vk_tr_display() {
    let ind = TrueRange::new();
    let s = format!("{}", ind);
    assert!(s == "TRUE_RANGE()");
}
