#!/usr/bin/env python3
"""generates lemmas/client.rs (run by hand; output committed)"""
import os
here = os.path.dirname(os.path.abspath(__file__))
IND = [
 ('SimpleMovingAverage', ['p'], True, 'Close', True), ('ExponentialMovingAverage', ['p'], True, 'Close', True),
 ('WeightedMovingAverage', ['p'], True, 'Close', True), ('StandardDeviation', ['p'], True, 'Close', True),
 ('MeanAbsoluteDeviation', ['p'], True, 'Close', True), ('RelativeStrengthIndex', ['p'], True, 'Close', True),
 ('Minimum', ['p'], True, 'Low', True), ('Maximum', ['p'], True, 'High', True),
 ('FastStochastic', ['p'], True, 'High + Low + Close', True), ('SlowStochastic', ['p', 'q'], True, 'High + Low + Close', False),
 ('AverageTrueRange', ['p'], True, 'High + Low + Close', True),
 ('MovingAverageConvergenceDivergence', ['p', 'q', 'r'], True, 'Close', False),
 ('PercentagePriceOscillator', ['p', 'q', 'r'], True, 'Close', False),
 ('CommodityChannelIndex', ['p'], False, 'Close + High + Low', True), ('EfficiencyRatio', ['p'], True, 'Close', True),
 ('BollingerBands', ['p', 'm'], True, 'Close', True), ('ChandelierExit', ['p', 'm'], False, 'Low + High + Close', True),
 ('KeltnerChannel', ['p', 'm'], True, 'Close + High + Low', True), ('RateOfChange', ['p'], True, 'Close', True),
 ('MoneyFlowIndex', ['p'], False, 'High + Low + Close + Volume', True),
]
cur = open(os.path.join(here, 'client.rs')).read()
head = cur[:cur.index('use crate::{Next, Reset, Period, Open, High, Low, Close, Volume};') + len('use crate::{Next, Reset, Period, Open, High, Low, Close, Volume};')] + '\n'
tail = cur[cur.index('\npub fn client_TrueRange'):]
out = head
for name, args, f64ok, bounds, hasper in IND:
    params = ', '.join('%s: %s' % (a, 'f64' if a == 'm' else 'usize') for a in args)
    call = ', '.join(args)
    zero = ' || '.join('%s == 0' % a for a in args if a != 'm')
    per = ' let _ = s.period();' if hasper else ''
    for kind, ok in (('f64', f64ok), ('bar', True)):
        if not ok:
            continue
        gen = '' if kind == 'f64' else '<T: %s>' % bounds
        ins = 'x1: f64, x2: f64, x3: f64' if kind == 'f64' else 'b1: &T, b2: &T, b3: &T'
        a1, a2, a3 = ('x1', 'x2', 'x3') if kind == 'f64' else ('b1', 'b2', 'b3')
        out += f'''
pub fn client_{name}_{kind}{gen}({params}, {ins}) {{
    match {name}::new({call}) {{
        Ok(mut s) => {{ assert(!({zero})); let _ = s.next({a1}); let _ = s.next({a2}); s.reset(); let _ = s.next({a3}); let _ = s.next({a1});{per} }} //#C12,C11
        Err(_) => {{ assert({zero}); }} //#C11
    }}
}}
'''
out += tail
open(os.path.join(here, 'client.rs'), 'w').write(out)
print('written')
