fn vk3_ref_ema(hist: &[f64], t: usize, n: usize) -> f64 {
    let alpha = 2.0 / (n as f64 + 1.0);
    let mut e = hist[0];
    let mut j = 1;
    while j <= t { e = alpha * hist[j] + (1.0 - alpha) * e; j += 1; }
    e
}
fn vk3_small() -> f64 { let v: i8 = kani::any(); kani::assume(v >= -4 && v <= 4); v as f64 }
// KeltnerChannel on scalars: average = EMA(x), bands = average +- multiplier * ATR, ATR = EMA(|x_t - x_{t-1}|)
fn vk_kc_matches_reference<const P: usize, const K: usize>() {
    let mult = 2.0;
    let mut ind = KeltnerChannel::new(P, mult).unwrap();
    let mut hist = [0.0f64; K];
    let mut trs = [0.0f64; K];
    let mut t = 0;
    while t < K {
        let x = vk3_small();
        hist[t] = x;
        trs[t] = if t == 0 { 0.0 } else { (x - hist[t - 1]).abs() };
        let out = ind.next(x);
        let (avg, atr) = (vk3_ref_ema(&hist, t, P), vk3_ref_ema(&trs, t, P));
        assert!(out.average == avg && out.upper == avg + atr * mult && out.lower == avg - atr * mult);
        assert!(out.lower <= out.average && out.average <= out.upper);
        t += 1;
    }
}
// @harness vk_kc_matches_reference_p3 props=C02,C09,C15 kind=bounded(period=3,steps=3) tier=quick
#[kani::proof] #[kani::unwind(6)] fn vk_kc_matches_reference_p3() { vk_kc_matches_reference::<3, 3>() }
