"""weave.py -- turn /repo/src (current working tree) + /verif/contracts/*.vspec into ONE Verus file.

Executable code is never retyped.  The weaver only
  (i)   inlines `mod x;` as `mod x { <file> }`,
  (ii)  deletes whole items from a fixed list (tests, Display impls, serde lines, comment lines),
  (iii) applies the token-level rewrites R1..R7 (each wrapped in  /*[~<base64 original>*/ new /*~]*/ ),
  (iv)  inserts ghost text from the sidecars (each wrapped in  /*[+*/ ... /*+]*/ ).
`erase()` undoes (iii) and (iv) from the woven text alone; `weave()` checks that the result equals the
source with the items of (ii) deleted -- byte for byte -- and raises WeaveError otherwise.
"""
import base64
import hashlib
import json
import os
import re
import sys

sys.path.insert(0, os.path.dirname(os.path.abspath(__file__)))
from rustscan import (mask, split_items, split_stmts, fn_ret_span, match_close, skip_ws, ScanError)

INS_L, INS_R = '/*[+*/', '/*+]*/'
RW_R = '/*~]*/'


class WeaveError(Exception):
    """tooling problem (exit 2), never a verdict"""


class AnchorLost(WeaveError):
    pass


def rw(orig, new):
    return '/*[~' + base64.b64encode(orig.encode()).decode() + '*/' + new + RW_R


_ERASE_INS = re.compile(re.escape(INS_L) + r'.*?' + re.escape(INS_R), re.S)
_ERASE_RW = re.compile(r'/\*\[~([A-Za-z0-9+/=]*)\*/.*?' + re.escape(RW_R), re.S)


def erase(text):
    text = _ERASE_INS.sub('', text)
    return _ERASE_RW.sub(lambda mm: base64.b64decode(mm.group(1)).decode(), text)


# ------------------------------------------------------------------------------------------------
# sidecar (.vspec) parsing
# ------------------------------------------------------------------------------------------------
class Directive:
    def __init__(self, kind, args, file, line):
        self.kind, self.args, self.file, self.line = kind, args, file, line
        self.payload = ''
        self.used = False

    def __repr__(self):
        return '%s:%d //@ %s %s' % (os.path.basename(self.file), self.line, self.kind, self.args)


def dkey(d):
    k = d.args.split(' :: ')[0]
    k = re.sub(r'\s+ret=\w+$', '', k)
    return ' '.join(k.split())


DELEGATE_FNS = [('next_req', False), ('ens_shape', True), ('ens_value', True), ('ens_range', True), ('ens_degen', True)]


def expand_delegate(d):
    """//@ delegate Next<&T> for X :: close_spec   ->  an `impl` directive whose five spec fns are, by
    definition, the Next<f64> clauses at input.<getter>() (C10)"""
    getter = d.args.split(' :: ', 1)[1].strip()
    nd = Directive('impl', dkey(d), d.file, d.line)
    out = ''
    for name, has_post in DELEGATE_FNS:
        if has_post:
            out += ('    open spec fn %s(&self, post: &Self, input: &T, out: Self::Output) -> bool { <Self as Next<f64>>::%s(self, post, input.%s(), out) }\n' % (name, name, getter))
        else:
            out += ('    open spec fn %s(&self, input: &T) -> bool { <Self as Next<f64>>::%s(self, input.%s()) }\n' % (name, name, getter))
    nd.payload = out
    return nd


def parse_vspec(path):
    ds = []
    cur = None
    with open(path) as f:
        for ln, line in enumerate(f, 1):
            if line.startswith('//@'):
                parts = line[3:].strip().split(None, 1)
                cur = Directive(parts[0], parts[1].strip() if len(parts) > 1 else '', path, ln)
                ds.append(cur)
            elif cur is not None:
                cur.payload += line
            elif line.strip() and not line.startswith('//'):
                raise WeaveError('%s:%d: text before first directive' % (path, ln))
    ds = [expand_delegate(d) if d.kind == 'delegate' else d for d in ds]
    for d in ds:
        if INS_R in d.payload or RW_R in d.payload:
            raise WeaveError('%r: payload contains a marker' % d)
    return ds


# ------------------------------------------------------------------------------------------------
# per-file weaving
# ------------------------------------------------------------------------------------------------
DROP_IMPL = re.compile(r'^(fmt::Display|Display|Error|std::error::Error|std::fmt::Display) for ')
DROP_USE = re.compile(r'^use (std::fmt|std::error::Error|std::fmt::\{Display, Formatter\}|serde::\{Deserialize, Serialize\})$')


class FileWeave:
    """edits for one source file"""

    def __init__(self, relpath, src, directives, log):
        self.rel = relpath
        self.src = src
        self.m = mask(src)
        self.dirs = directives
        self.log = log
        self.edits = []      # (start, end, kind, text, origin)   kind in drop|ins|rw
        self.fns = []        # (key, start, end, exec?)  source offsets
        self.dropped = []
        self.rewrites = {}
        self.lost_hints = []
        self.lost_loops = []

    # -- helpers
    def drop(self, a, b, what):
        # extend to whole lines when the span is alone on its lines
        s = self.src
        a2 = a
        while a2 > 0 and s[a2 - 1] in ' \t':
            a2 -= 1
        b2 = b
        while b2 < len(s) and s[b2] in ' \t':
            b2 += 1
        if (a2 == 0 or s[a2 - 1] == '\n') and (b2 >= len(s) or s[b2] == '\n'):
            a, b = a2, min(b2 + 1, len(s))
        self.edits.append((a, b, 'drop', '', what))
        self.dropped.append(what)

    def ins(self, pos, text, d):
        self.edits.append((pos, pos, 'ins', text, d))

    def rewrite(self, a, b, new, rule):
        self.edits.append((a, b, 'rw', new, rule))
        self.rewrites[rule] = self.rewrites.get(rule, 0) + 1

    def find_dirs(self, kind, key=None):
        return [d for d in self.dirs if d.kind == kind and (key is None or dkey(d) == key)]

    # -- main
    def plan(self):
        src, m = self.src, self.m
        # (ii) comment-only lines
        off = 0
        for line in src.split('\n'):
            st = line.strip()
            if st.startswith('//'):
                self.edits.append((off, min(off + len(line) + 1, len(src)), 'drop', '', 'comment'))
            off += len(line) + 1
        items = split_items(src, m, 0, len(src))
        for d in self.find_dirs('top'):
            # after the last `use` item (or at file start)
            self.ins(0, d.payload, d)
            d.used = True
        for it in items:
            self.plan_item(it)
        # (iii) global token rewrites on kept code
        self.token_rewrites()

    def is_dropped_span(self, a, b):
        for (s, e, k, _, _) in self.edits:
            if k == 'drop' and s <= a and b <= e:
                return True
        return False

    def plan_item(self, it):
        src, m = self.src, self.m
        attrs = ' '.join(it.attrs)
        if 'cfg(test)' in attrs:
            self.drop(it.start, it.end, 'cfg(test) item ' + it.name)
            return
        if 'cfg(feature = "serde")' in attrs and it.kind == 'use':
            self.drop(it.start, it.end, 'serde use')
            return
        if it.kind == 'use' and DROP_USE.match(it.name):
            self.drop(it.start, it.end, it.name)
            return
        if it.kind == 'impl' and DROP_IMPL.match(it.name):
            self.drop(it.start, it.end, 'impl ' + it.name)
            return
        # attribute lines that are dropped individually
        p = it.start
        for a in it.attrs:
            q = src.index(a, p)
            if a.startswith('#[cfg_attr(feature = "serde"') or a.startswith('#[doc('):
                self.drop(q, q + len(a), 'attr ' + a.split('(')[0])
            p = q + len(a)
        if it.kind == 'struct' and it.name in getattr(self, 'layout_texts', {}):
            gd = Directive('generated', 'layout ' + it.name, 'vlib/layout.py', 0)
            self.ins(it.end, '\n' + self.layout_texts[it.name], gd)
        if it.kind in ('struct', 'enum'):
            for d in self.find_dirs('after-item', it.name):
                self.ins(it.end, '\n' + d.payload, d)
                d.used = True
        if it.kind == 'fn':
            self.plan_fn(it, it.name)
        if it.kind in ('impl', 'trait'):
            key = it.name if it.kind == 'impl' else 'trait ' + it.name
            for d in self.find_dirs('impl', key):
                self.ins(it.body_lo, '\n' + d.payload, d)
                d.used = True
            for sub in split_items(src, m, it.body_lo, it.body_hi):
                if sub.kind == 'fn':
                    self.plan_fn(sub, key + '::' + sub.name)

    def plan_fn(self, f, key):
        src, m = self.src, self.m
        self.fns.append((key, f.start, f.end))
        for d in self.find_dirs('attr', key):
            self.ins(f.attr_end, d.payload.strip() + '\n    ', d)
            d.used = True
        for d in self.find_dirs('sig', key):
            mm = re.search(r'\bret=(\w+)', d.args)
            rs = fn_ret_span(src, m, f)
            if mm and rs:
                self.rewrite(rs[0], rs[1], '(%s: %s)' % (mm.group(1), src[rs[0]:rs[1]]), 'R6-named-return')
            elif mm and not rs:
                raise AnchorLost('%r: fn %s has no return type to name' % (d, key))
            self.ins(f.hdr_end, '\n' + d.payload.rstrip() + '\n    ', d)
            d.used = True
        if f.body_lo < 0:
            return
        stmts, loops = split_stmts(src, m, f.body_lo, f.body_hi)
        for d in self.find_dirs('head', key):
            self.ins(f.body_lo, '\n' + d.payload, d)
            d.used = True
        for d in self.find_dirs('tail', key):
            top = [s for s in stmts if s.depth == 0]
            if top and top[-1].tail and not re.match(r'(for|while|loop)\b', top[-1].text):
                self.ins(top[-1].start, d.payload + '        ', d)
            else:
                self.ins(f.body_hi, d.payload, d)
            d.used = True
        for kind in ('after', 'before'):
            for d in self.find_dirs(kind, key):
                # args:  <fnkey> :: <statement prefix> [#k]
                try:
                    anchor = d.args.split(' :: ', 1)[1].strip()
                except IndexError:
                    raise WeaveError('%r: missing " :: <statement prefix>"' % d)
                nth = 1
                mm = re.search(r'\s#(\d+)$', anchor)
                if mm:
                    nth = int(mm.group(1))
                    anchor = anchor[:mm.start()].strip()
                anchor = ' '.join(anchor.split())
                hits = [s for s in stmts if s.text.startswith(anchor)]
                if len(hits) < nth:
                    # a lost *hint* anchor drops the hint (recorded); Verus then tries without it
                    self.lost_hints.append(repr(d))
                    d.used = True
                    continue
                s = hits[nth - 1]
                if kind == 'after':
                    if s.tail:
                        raise WeaveError('%r: cannot insert after a tail expression' % d)
                    self.ins(s.end, '\n' + d.payload, d)
                else:
                    self.ins(s.start, d.payload + '        ', d)
                d.used = True
        for d in self.find_dirs('loopbody', key):
            try:
                n = int(d.args.split(' :: ', 1)[1].split()[0])
            except (IndexError, ValueError):
                raise WeaveError('%r: missing " :: <ordinal>"' % d)
            if n > len(loops):
                self.lost_loops.append(repr(d))
                d.used = True
                continue
            self.ins(loops[n - 1][1] + 1, '\n' + d.payload, d)
            d.used = True
        for d in self.find_dirs('loop', key):
            # args: <fnkey> :: <ordinal> [iter=<name>]
            try:
                rest = d.args.split(' :: ', 1)[1]
            except IndexError:
                raise WeaveError('%r: missing " :: <ordinal>"' % d)
            n = int(rest.split()[0])
            if n > len(loops):
                # the loop is gone: its invariant is meaningless; the function is verified without it
                self.lost_loops.append(repr(d))
                d.used = True
                continue
            kwpos, bracepos, _ = loops[n - 1]
            mm = re.search(r'\biter=(\w+)', rest)
            if mm:
                # R7: `for x in EXPR {`  ->  `for x in it: EXPR {`   (ghost iterator label)
                hm = re.match(r'for\s+[^{]*?\bin\s+', m[kwpos:bracepos])
                if not hm:
                    self.lost_loops.append(repr(d))
                    d.used = True
                    continue
                self.ins(kwpos + hm.end(), mm.group(1) + ': ', d)
            self.ins(bracepos, '\n' + d.payload.rstrip() + '\n        ', d)
            d.used = True

    def token_rewrites(self):
        src, m = self.src, self.m

        def live(a, b):
            return not self.is_dropped_span(a, b)
        # R1  `E as f64`
        for mm in re.finditer(r'((?:[A-Za-z_][\w\.]*)|\((?:[^()]|\([^()]*\))*\))\s+as\s+f64\b', m):
            if live(mm.start(), mm.end()):
                e = src[mm.start(1):mm.end(1)]
                self.rewrite(mm.start(), mm.end(), 'usize_as_f64(%s)' % e, 'R1-usize-as-f64')
        # R2  f64::INFINITY / NEG_INFINITY  (not inside external_body functions: those stay verbatim)
        ext = []
        for (key, a, b) in self.fns:
            if any('external_body' in d.payload for d in self.find_dirs('attr', key)):
                ext.append((a, b))
        for mm in re.finditer(r'\b(?:std::|core::)?f64::(NEG_INFINITY|INFINITY|EPSILON|MAX|MIN_POSITIVE|MIN|NAN)\b', m):
            if live(mm.start(), mm.end()) and not any(a <= mm.start() < b for a, b in ext):
                self.rewrite(mm.start(), mm.end(), {'NEG_INFINITY': 'f64_neg_infinity()', 'INFINITY': 'f64_infinity()', 'EPSILON': 'f64_epsilon()',
                                                    'MAX': 'f64_max_value()', 'MIN': 'f64_min_value()', 'MIN_POSITIVE': 'f64_min_positive()',
                                                    'NAN': 'f64_nan()'}[mm.group(1)], 'R2-f64-const')
        # R3  compound assignment
        for mm in re.finditer(r'([A-Za-z_][\w\.]*(?:\[[^\]]*\])?)\s*([+\-*/])=\s*', m):
            a = mm.start()
            if not live(a, mm.end()) or any(x <= a < y for x, y in ext):
                continue
            if m[mm.start(2) - 1] in '=!<>' or m[mm.end(2) + 1] == '=':
                continue
            # RHS runs to ';' or to the closing brace of the enclosing block (tail position)
            j = mm.end()
            d = 0
            while j < len(m):
                c = m[j]
                if c in '([{':
                    d += 1
                elif c in ')]}':
                    if d == 0:
                        break
                    d -= 1
                elif c == ';' and d == 0:
                    break
                j += 1
            rhs_end = j
            while rhs_end > mm.end() and m[rhs_end - 1].isspace():
                rhs_end -= 1
            lhs = src[mm.start(1):mm.end(1)]
            rhs = src[mm.end():rhs_end]
            # two point edits so that rewrites inside the RHS (R1) stay independent
            self.rewrite(mm.start(2), mm.end(2) + 1, '= %s %s (' % (lhs, mm.group(2)), 'R3-compound-assign')
            self.edits.append((rhs_end, rhs_end, 'rw', ')', 'R3-compound-assign'))
        # R4  unary minus on an identifier / field path in expression-start position
        for mm in re.finditer(r'(?<![\w\)\]\.])-\s*([A-Za-z_][\w\.]*)', m):
            a = mm.start()
            if not live(a, mm.end()) or any(x <= a < y for x, y in ext):
                continue
            k = a - 1
            while k >= 0 and m[k].isspace():
                k -= 1
            if k >= 0 and (m[k] in '=(,{;' or m[max(0, k - 5):k + 1].endswith('return')):
                if m[k] == '=' and m[k - 1] in '+-*/':
                    continue
                if re.match(r'\d', mm.group(1)):
                    continue
                self.rewrite(a, mm.end(), 'f64_neg(%s)' % src[mm.start(1):mm.end(1)], 'R4-unary-neg')

    def render(self):
        """-> (woven text, reference text (source minus dropped spans), segments)
        segments: list of (woven_start, woven_end, src_start) for verbatim source pieces"""
        src = self.src
        edits = sorted(self.edits, key=lambda e: (e[0], 0 if e[2] == 'drop' else 1, e[1]))
        # merge / validate: drops may contain other edits (those are discarded)
        out = []
        ref = []
        segs = []
        pos = 0
        wpos = 0
        drop_until = -1
        inslog = []

        def emit_src(a, b):
            nonlocal wpos
            if b > a:
                t = src[a:b]
                out.append(t)
                ref.append(t)
                segs.append((wpos, wpos + len(t), a))
                wpos += len(t)
        for (a, b, kind, text, origin) in edits:
            if a < drop_until and kind == 'ins':
                a = b = drop_until   # anchored at a dropped comment/attribute: move past it
            elif a < drop_until and kind != 'drop':
                continue   # rewrite inside a dropped item
            if kind == 'drop':
                if b <= drop_until:
                    continue
                if a < pos:
                    a = pos
                emit_src(pos, a)
                pos = max(pos, b)
                drop_until = max(drop_until, b)
                continue
            if a < pos:
                raise WeaveError('%s: overlapping edits at %d (%s)' % (self.rel, a, origin))
            emit_src(pos, a)
            if kind == 'ins':
                t = INS_L + text + INS_R
                inslog.append((wpos, wpos + len(t), origin))
                out.append(t)
                wpos += len(t)
                pos = a
            else:
                t = rw(src[a:b], text)
                out.append(t)
                ref.append(src[a:b])
                segs.append((wpos, wpos + len(t), a))
                wpos += len(t)
                pos = b
        emit_src(pos, len(src))
        return ''.join(out), ''.join(ref), segs, inslog


# ------------------------------------------------------------------------------------------------
# crate-level weaving
# ------------------------------------------------------------------------------------------------
CRATE_HEAD = '''#![feature(allocator_api)]
#![verifier::allow(autoderive_clone_without_spec)]
#![allow(unused_imports, dead_code, unused_variables, unused_mut, unused_parens, unused_braces, unused_assignments)]
use vstd::prelude::*;
verus! {
'''
CRATE_TAIL = '''
} // verus!
fn main() {}
'''


class Woven:
    pass


def weave(repo='/repo', contracts='/verif/contracts', extra_modules=(), drop_directives=(), override_src=None, drop_extra_fns=()):
    """returns Woven with .text, .files{rel: info}, .fn_spans[(rel,key)] = (line_lo, line_hi), .stats"""
    srcdir = os.path.join(repo, 'src')
    override_src = override_src or {}     # rel -> path of the baseline text used INSTEAD of the current file (isolation, see check.py)
    log = []
    w = Woven()
    w.substituted = sorted(override_src)
    w.struct_files = {}
    w.files = {}
    w.lost_hints = []
    w.lost_loops = []
    w.lost_items = {}
    w.dropped = {}
    w.rewrites = {}
    w.unused = []
    pieces = []   # (text, rel or None, segs, inslog)

    def module_text(rel, modname):
        path = override_src.get(rel, os.path.join(srcdir, rel))
        src = open(path).read()
        vs = os.path.join(contracts, modname + '.vspec')
        dirs = parse_vspec(vs) if os.path.exists(vs) else []
        dropped_here = [d for d in dirs if repr(d) in drop_directives]
        dirs = [d for d in dirs if repr(d) not in drop_directives]
        w.lost_hints += ['(does not compile against the current source, dropped) ' + repr(d) for d in dropped_here]
        fw = FileWeave(rel, src, dirs, log)
        fw.layout_texts = lay_texts if rel.startswith('indicators') else {}
        try:
            fw.plan()
        except ScanError as e:
            raise WeaveError('%s: %s' % (rel, e))
        text, ref, segs, inslog = fw.render()
        # erasure check (independent of render bookkeeping: works on the woven text only)
        if erase(text) != ref:
            raise WeaveError('%s: erasure check failed' % rel)
        for d in dirs:
            if not d.used:
                # the item this contract belongs to is gone (renamed / restructured): every obligation of this module
                # becomes undecided; the other modules are unaffected
                w.lost_items.setdefault(rel, []).append(repr(d))
        w.lost_hints += fw.lost_hints
        w.lost_loops += fw.lost_loops
        w.dropped[rel] = fw.dropped
        w.rewrites[rel] = fw.rewrites
        return fw, text, segs, inslog

    # C18: serialized-size specs generated from the struct definitions of the current tree
    import layout as LAY
    structs, aliases, struct_mod = {}, {}, {}
    inddir = os.path.join(srcdir, 'indicators')
    for fn_ in sorted(os.listdir(inddir)):
        if not fn_.endswith('.rs') or fn_ == 'mod.rs':
            continue
        txt_ = open(override_src.get('indicators/' + fn_, os.path.join(inddir, fn_))).read()
        m_ = mask(txt_)
        for am in re.finditer(r'use\s+crate::indicators::(\w+)\s+as\s+(\w+)\s*;', m_):
            aliases[am.group(2)] = am.group(1)
        try:
            for it_ in split_items(txt_, m_, 0, len(txt_)):
                if it_.kind == 'struct' and it_.body_lo >= 0 and not it_.name.endswith('Output') and 'cfg(test)' not in ' '.join(it_.attrs):
                    structs[it_.name] = LAY.parse_struct_fields(m_[it_.body_lo:it_.body_hi])
                    struct_mod[it_.name] = fn_[:-3]
                    w.struct_files.setdefault('indicators/' + fn_, []).append(it_.name)
        except (ScanError, LAY.LayoutError) as e:
            raise WeaveError('%s: %s' % (fn_, e))
    lay_texts, w.layout_info, w.layout_problems = LAY.gen(structs, aliases)
    for name_, t_ in lay_texts.items():
        vs_ = os.path.join(contracts, struct_mod[name_] + '.vspec')
        has_shape = os.path.exists(vs_) and re.search(r'spec fn shape_ok\b', open(vs_).read()) is not None
        t_ += '    pub proof fn lemma_buf_total(&self)\n'
        if has_shape:
            t_ += '        requires self.shape_ok(),\n'
        t_ += '        ensures self.buf_total() == self.per_sum() //#C18\n    {\n'
        for c_ in w.layout_info[name_]['nested']:
            t_ += '        self.%s.lemma_buf_total();\n' % c_
        t_ += '    }\n}\n'
        lay_texts[name_] = t_
    w.layout_texts = lay_texts

    # recursive inlining of `mod x;`
    def inline(rel, modname, out, depth):
        fw, text, segs, inslog = module_text(rel, modname)
        base_dir = os.path.dirname(rel)
        m = mask(text)
        # find `mod x;` declarations in the woven text at item level
        res = []
        pos = 0
        file_start_marker = len(out)
        chunks = []
        for mm in re.finditer(r'^(\s*)((?:pub(?:\([^)]*\))?\s+)?mod\s+(\w+)\s*);', m, re.M):
            name = mm.group(3)
            chunks.append((mm.start(2), mm.end(), name, text[mm.start(2):mm.end(2)]))
        cur = 0
        out.append(('file-begin', rel, fw))
        for (a, b, name, decl) in chunks:
            out.append(('text', rel, text[cur:a], cur))
            if rel in ('lib.rs',):
                sub = name + '.rs' if os.path.exists(os.path.join(srcdir, name + '.rs')) else os.path.join(name, 'mod.rs')
            else:
                sub = os.path.join(base_dir, name + '.rs')
            if not os.path.exists(os.path.join(srcdir, sub)):
                # dropped module (test_helper under cfg(test)) -- should not occur: such decls are dropped items
                raise WeaveError('module file not found: ' + sub)
            out.append(('gen', None, decl.rstrip() + ' {\nuse vstd::prelude::*;\nuse crate::vp::*;\n', None))
            inline(sub, name if name != 'mod' else os.path.basename(base_dir), out, depth + 1)
            out.append(('gen', None, '\n} // mod ' + name + '\n', None))
            cur = b
        out.append(('text', rel, text[cur:], cur))
        out.append(('file-end', rel, (segs, inslog)))

    out = []
    inline('lib.rs', 'lib', out, 0)
    # assemble + line map
    prelude = open(os.path.join(contracts, 'prelude.rs')).read()
    specs = open(os.path.join(contracts, 'specs.rs')).read()
    import alg as ALG
    w.alg_lemmas = ALG.parse(os.path.join(contracts, 'alg.lem'))
    specs = ALG.verus_text(w.alg_lemmas) + specs
    buf = [CRATE_HEAD, 'pub mod vp {\nuse vstd::prelude::*;\n', prelude, '\n', specs, '\n} // mod vp\nuse crate::vp::*;\n']
    extra = ''
    w.dropped_extra_fns = sorted(drop_extra_fns)
    for em in extra_modules:
        etxt = open(os.path.join(contracts, em)).read()
        if drop_extra_fns:
            # lemma / client functions that no longer compile against the changed crate are removed (their obligations are undecided)
            for fnname in drop_extra_fns:
                mm = re.search(r'(?m)^pub (?:proof )?fn %s\b' % re.escape(fnname), etxt)
                if mm:
                    em_mask = mask(etxt)
                    j = mm.end()
                    depth = 0
                    while j < len(etxt):
                        c = em_mask[j]
                        if c in '([':
                            depth += 1
                        elif c in ')]':
                            depth -= 1
                        elif c == '{' and depth == 0:
                            k = match_close(em_mask, j)
                            nx = skip_ws(em_mask, k + 1, len(etxt))
                            if nx < len(etxt) and re.match(r'[,=&|<>+\-*/.;?]|(ensures|requires|decreases)\b', em_mask[nx:]):
                                j = k + 1
                                continue
                            etxt = etxt[:mm.start()] + '// (removed: %s does not compile against the current crate)\n' % fnname + etxt[k + 1:]
                            break
                        j += 1
        extra += '\n' + etxt + '\n'
    woven_pos = sum(len(x) for x in buf)
    filemaps = {}   # rel -> list of (woven_abs_start, local_start, length)
    stack = []
    for rec in out:
        if rec[0] == 'file-begin':
            stack.append(rec[1])
            filemaps.setdefault(rec[1], {'chunks': [], 'fw': rec[2]})
        elif rec[0] == 'file-end':
            filemaps[rec[1]]['segs'], filemaps[rec[1]]['inslog'] = rec[2]
            stack.pop()
        elif rec[0] == 'text':
            filemaps[rec[1]]['chunks'].append((woven_pos, rec[3], len(rec[2])))
            buf.append(rec[2])
            woven_pos += len(rec[2])
        else:
            buf.append(rec[2])
            woven_pos += len(rec[2])
    buf.append(extra)
    buf.append(CRATE_TAIL)
    w.text = ''.join(buf)
    w.prelude_lines = (CRATE_HEAD + 'pub mod vp {\nuse vstd::prelude::*;\n').count('\n')

    # line starts
    starts = [0]
    for mm in re.finditer('\n', w.text):
        starts.append(mm.end())
    import bisect

    def line_of(abs_pos):
        return bisect.bisect_right(starts, abs_pos)
    w.line_of = line_of

    def local_to_abs(rel, local):
        for (wa, la, ln) in filemaps[rel]['chunks']:
            if la <= local <= la + ln:
                return wa + (local - la)
        return None

    def src_to_local(rel, off):
        # source offset -> offset in the file's woven text
        segs = filemaps[rel]['segs']
        best = None
        for (ws, we, ss) in segs:
            if ss <= off:
                best = (ws, we, ss)
            else:
                break
        if best is None:
            return 0
        ws, we, ss = best
        return min(ws + (off - ss), we)
    # function spans (woven lines) and reverse line map
    w.fn_spans = {}
    w.src_line = {}     # woven line -> (rel, source line)
    w.ins_line = {}     # woven line -> directive repr
    for rel, fmp in filemaps.items():
        fw = fmp['fw']
        src = fw.src
        for (key, a, b) in fw.fns:
            if fw.is_dropped_span(a, b):
                continue
            la = local_to_abs(rel, src_to_local(rel, a))
            lb = local_to_abs(rel, src_to_local(rel, b - 1))
            if la is None or lb is None:
                continue
            w.fn_spans[(rel, key)] = (line_of(la), line_of(lb), src.count('\n', 0, a) + 1)
        for (ws, we, ss) in fmp['segs']:
            # map every source line of the segment individually: a parent file's segment is not contiguous in the woven
            # file (child modules are inlined in the middle of it)
            seg_src = src[ss:ss + (we - ws)] if (ss + (we - ws)) <= len(src) else src[ss:]
            sl = src.count('\n', 0, ss) + 1
            off = 0
            k = 0
            while True:
                aa = local_to_abs(rel, ws + off)
                if aa is not None:
                    w.src_line[line_of(aa)] = (rel, sl + k)
                nl = seg_src.find('\n', off)
                if nl < 0 or nl + 1 > (we - ws):
                    break
                off = nl + 1
                k += 1
        for (ws, we, origin) in fmp['inslog']:
            aa, bb = local_to_abs(rel, ws), local_to_abs(rel, we)
            if aa is None or bb is None:
                continue
            for ln in range(line_of(aa), line_of(bb) + 1):
                w.ins_line[ln] = repr(origin)
    w.filemaps = {k: {'dropped': v['fw'].dropped} for k, v in filemaps.items()}
    w.sha = hashlib.sha256(w.text.encode()).hexdigest()
    return w


if __name__ == '__main__':
    import argparse
    ap = argparse.ArgumentParser()
    ap.add_argument('--repo', default='/repo')
    ap.add_argument('--contracts', default='/verif/contracts')
    ap.add_argument('-o', default='/dev/stdout')
    a = ap.parse_args()
    w = weave(a.repo, a.contracts)
    open(a.o, 'w').write(w.text)
    sys.stderr.write(json.dumps({'rewrites': w.rewrites, 'lost_hints': w.lost_hints, 'sha': w.sha}, indent=1) + '\n')
