struct Vk3Bar { h: f64, l: f64, c: f64, v: f64 }
impl High for Vk3Bar { fn high(&self) -> f64 { self.h } }
impl Low for Vk3Bar { fn low(&self) -> f64 { self.l } }
impl Close for Vk3Bar { fn close(&self) -> f64 { self.c } }
impl Volume for Vk3Bar { fn volume(&self) -> f64 { self.v } }
fn vk3_m3() -> f64 { let v: u8 = kani::any(); kani::assume(v <= 3); (v as f64) * 3.0 }      // 0, 3, 6, 9
fn vk3_bar() -> Vk3Bar { let v: u8 = kani::any(); kani::assume(v <= 3); Vk3Bar { h: vk3_m3(), l: vk3_m3(), c: vk3_m3(), v: v as f64 } }
fn vk3_max3(a: f64, b: f64, c: f64) -> f64 { let m = if a >= b { a } else { b }; if m >= c { m } else { c } }

// MFI = 100*PMF/(PMF+NMF) over the last n typical-price moves (first output 50; neutral 50 when there is no flow)
fn vk_mfi_matches_reference<const P: usize, const K: usize>() {
    let mut ind = MoneyFlowIndex::new(P).unwrap();
    let mut flows = [0.0f64; K];          // signed: + when the typical price rose, - when it fell, 0 otherwise / first bar
    let mut prev_tp = 0.0;
    let mut t = 0;
    while t < K {
        let b = vk3_bar();
        let tp = (b.c + b.h + b.l) / 3.0;
        flows[t] = if t == 0 { 0.0 } else if tp > prev_tp { tp * b.v } else if tp < prev_tp { -(tp * b.v) } else { 0.0 };
        prev_tp = tp;
        let out = ind.next(&b);
        if t == 0 { assert!(out == 50.0); } else {
            let n = if t + 1 < P { t + 1 } else { P };     // the last n moves (the first bar counts as a zero move)
            let (mut pos, mut neg) = (0.0, 0.0);
            let mut j = t + 1 - n;
            while j <= t { if flows[j] > 0.0 { pos += flows[j]; } else { neg += -flows[j]; } j += 1; }
            if pos + neg == 0.0 { assert!(out == 50.0); } else { assert!(out == pos / (pos + neg) * 100.0); }
            assert!(out >= 0.0 && out <= 100.0);
        }
        t += 1;
    }
}
// @harness vk_mfi_matches_reference_p2 props=C03,C07,C08,C17 kind=bounded(period=2,steps=4) tier=thorough
#[kani::proof] #[kani::unwind(7)] fn vk_mfi_matches_reference_p2() { vk_mfi_matches_reference::<2, 4>() }
