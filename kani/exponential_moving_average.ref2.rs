fn vk_small2() -> f64 { let v: i8 = kani::any(); kani::assume(v >= -4 && v <= 4); v as f64 }
// EMA(n) over hist[0..=t], from scratch: first value, then alpha*x + (1-alpha)*prev with alpha = 2/(n+1)
fn vk_ref_ema(hist: &[f64], t: usize, n: usize) -> f64 {
    let alpha = 2.0 / (n as f64 + 1.0);
    let mut e = hist[0];
    let mut j = 1;
    while j <= t { e = alpha * hist[j] + (1.0 - alpha) * e; j += 1; }
    e
}

fn vk_ema_matches_reference<const P: usize, const K: usize>() {
    let mut ind = ExponentialMovingAverage::new(P).unwrap();
    let mut hist = [0.0f64; K];
    let mut t = 0;
    while t < K {
        let x = vk_small2();
        hist[t] = x;
        let out = ind.next(x);
        assert!(out == vk_ref_ema(&hist, t, P));
        t += 1;
    }
}
// @harness vk_ema_matches_reference_p1 props=C02 kind=bounded(period=1,steps=3) tier=quick
#[kani::proof] #[kani::unwind(6)] fn vk_ema_matches_reference_p1() { vk_ema_matches_reference::<1, 3>() }
// @harness vk_ema_matches_reference_p3 props=C02 kind=bounded(period=3,steps=4) tier=quick
#[kani::proof] #[kani::unwind(7)] fn vk_ema_matches_reference_p3() { vk_ema_matches_reference::<3, 4>() }
