
// @harness vk_rsi_display props=C11 kind=bounded(concrete-parameters) tier=thorough
// Display renders NAME(params): RSI(14) (concrete parameters only)
#[kani::proof]
#[kani::unwind(40)]
fn vk_rsi_display() {
    let ind = RelativeStrengthIndex::new(14).unwrap();
    let s = format!("{}", ind);
    assert!(s == "RSI(14)");
}
