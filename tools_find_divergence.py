#!/usr/bin/env python3
"""per-module Verus runs under one seed with a short timeout: find the module whose query diverges"""
import sys, re
sys.path.insert(0, '/verif/vlib'); sys.path.insert(0, '/verif')
import weave as W, verus_lane as V, check as C
seed = int(sys.argv[1])
w = W.weave(C.REPO, C.CONTRACTS, extra_modules=C.lemma_modules())
fns = V.fn_table(w.text)
mods = sorted(set(f.module for f in fns if f.module))
for mo in mods:
    r = V.run_verus(w.text, modules=[mo], rlimit=80, timeout=90, extra=['--smt-option', 'smt.random_seed=%d' % seed])
    print(mo, 'verified', r.get('verified'), 'errors', r.get('errors'), 'wall %.1f' % r['wall_s'], 'rc', r['rc'], flush=True)
