fn vk_small2() -> f64 { let v: i8 = kani::any(); kani::assume(v >= -4 && v <= 4); v as f64 }
// EMA(n) over hist[0..=t], from scratch: first value, then alpha*x + (1-alpha)*prev with alpha = 2/(n+1)
fn vk_ref_ema(hist: &[f64], t: usize, n: usize) -> f64 {
    let alpha = 2.0 / (n as f64 + 1.0);
    let mut e = hist[0];
    let mut j = 1;
    while j <= t { e = alpha * hist[j] + (1.0 - alpha) * e; j += 1; }
    e
}

// MACD(f, s, g): line = EMA_f - EMA_s, signal = EMA_g(line), histogram = line - signal, all from scratch
fn vk_macd_matches_reference<const PF: usize, const PS: usize, const PG: usize, const K: usize>() {
    let mut ind = MovingAverageConvergenceDivergence::new(PF, PS, PG).unwrap();
    let mut hist = [0.0f64; K];
    let mut line = [0.0f64; K];
    let mut t = 0;
    while t < K {
        let x = vk_small2();
        hist[t] = x;
        let out = ind.next(x);
        line[t] = vk_ref_ema(&hist, t, PF) - vk_ref_ema(&hist, t, PS);
        let sig = vk_ref_ema(&line, t, PG);
        assert!(out.macd == line[t]);
        assert!(out.signal == sig);
        assert!(out.histogram == line[t] - sig);
        t += 1;
    }
}
// @harness vk_macd_matches_reference_133 props=C02,C09,C15 kind=bounded(periods=(1,3,3),steps=3) tier=quick
#[kani::proof] #[kani::unwind(6)] fn vk_macd_matches_reference_133() { vk_macd_matches_reference::<1, 3, 3, 3>() }
// @harness vk_macd_matches_reference_313 props=C02,C09,C15 kind=bounded(periods=(3,1,3),steps=3) tier=quick
#[kani::proof] #[kani::unwind(6)] fn vk_macd_matches_reference_313() { vk_macd_matches_reference::<3, 1, 3, 3>() }
