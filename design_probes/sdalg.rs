verus! {
pub proof fn alg_slide_a(d: real, o: real, m0: real, m1: real)
   ensures ((o + d) - o)*((o + d) - m1 + o - m0) - ((o + d)*(o + d) - o*o) == 0real - d*(m1 + m0)
{ assert(((o + d) - o)*((o + d) - m1 + o - m0) - ((o + d)*(o + d) - o*o) == 0real - d*(m1 + m0)) by(nonlinear_arith); }
pub proof fn alg_slide_b(n: real, m0: real, m1: real)
   ensures (0real - n*m0*m0) - (n*m1 - n*m0)*(m1 + m0) + n*m1*m1 == 0real
{ assert((0real - n*m0*m0) - (n*m1 - n*m0)*(m1 + m0) + n*m1*m1 == 0real) by(nonlinear_arith); }
pub proof fn alg_grow(c: real, m0: real, m1: real)
   ensures (0real - c*m0*m0) + ((m1*(c+1real) - m0*c) - m0)*((m1*(c+1real) - m0*c) - m1) == (m1*(c+1real) - m0*c)*(m1*(c+1real) - m0*c) - (c+1real)*m1*m1
{ assert((0real - c*m0*m0) + ((m1*(c+1real) - m0*c) - m0)*((m1*(c+1real) - m0*c) - m1) == (m1*(c+1real) - m0*c)*(m1*(c+1real) - m0*c) - (c+1real)*m1*m1) by(nonlinear_arith); }
pub proof fn alg_mean_update(m0: real, d: real, c: real) 
   requires c != 0real
   ensures (m0 + d / c) * c == m0 * c + d
{ assert((m0 + d / c) * c == m0 * c + d) by(nonlinear_arith) requires c != 0real; }
pub proof fn alg_distr1(m: real, c: real) ensures m*(c+1real) == m*c + m
{ assert(m*(c+1real) == m*c + m) by(nonlinear_arith); }

pub open spec fn mean_ok(m: real, c: real, s: real) -> bool { m * c == s }
pub open spec fn m2_ok(m2: real, q: real, c: real, m: real) -> bool { m2 == q - c*m*m }

pub proof fn step_grow(c: real, s0: real, q0: real, m0: real, m2_0: real, x: real, m1: real, m2_1: real)
    requires c >= 0real, mean_ok(m0, c, s0), m2_ok(m2_0, q0, c, m0),
        m1 == m0 + (x - m0) / (c + 1real),
        m2_1 == m2_0 + (x - m0) * (x - m1),
    ensures mean_ok(m1, c + 1real, s0 + x), m2_ok(m2_1, q0 + x*x, c + 1real, m1)
{
    alg_mean_update(m0, x - m0, c + 1real);
    alg_distr1(m0, c);
    assert(m1 * (c + 1real) == m0 * c + x);
    assert(x == m1*(c+1real) - m0*c);
    alg_grow(c, m0, m1);
}
pub proof fn step_slide(n: real, s0: real, q0: real, m0: real, m2_0: real, x: real, o: real, m1: real, m2_1: real)
    requires n >= 1real, mean_ok(m0, n, s0), m2_ok(m2_0, q0, n, m0),
        m1 == m0 + (x - o) / n,
        m2_1 == m2_0 + (x - o) * (x - m1 + o - m0),
    ensures mean_ok(m1, n, s0 - o + x), m2_ok(m2_1, q0 - o*o + x*x, n, m1)
{
    alg_mean_update(m0, x - o, n);
    assert(m1 * n == m0 * n + (x - o));
    let d = x - o;
    assert(x == o + d);
    alg_slide_a(d, o, m0, m1);
    alg_slide_b(n, m0, m1);
    assert(d == m1 * n - m0 * n);
    assert(m1 * n == n * m1 && m0 * n == n * m0) by(nonlinear_arith);
}
}
fn main(){}
