fn vk_prev() -> Option<f64> { if kani::any() { Some(kani::any()) } else { None } }

// @harness vk_tr_scalar props=C02,C08,C09 kind=complete tier=quick
// scalar path, bit-precise over all f64: |x - prev| / 0 first; >= 0; exactly 0 on a flat step; prev_close := x
#[kani::proof]
fn vk_tr_scalar() {
    let prev = vk_prev();
    let mut tr = TrueRange { prev_close: prev };
    let x: f64 = kani::any();
    let out = tr.next(x);
    assert!(tr.prev_close.map(|p| p.to_bits()) == Some(x.to_bits()));
    match prev {
        None => assert!(out.to_bits() == 0.0f64.to_bits()),
        Some(p) => {
            let want = (x - p).abs();
            assert!(out.to_bits() == want.to_bits() || (out.is_nan() && want.is_nan()));
            if !x.is_nan() && !p.is_nan() && !(x.is_infinite() && p.is_infinite()) { assert!(out >= 0.0); }
            if x == p && x.is_finite() { assert!(out == 0.0); }
        }
    }
}

struct VkBar { h: f64, l: f64, c: f64 }
impl High for VkBar { fn high(&self) -> f64 { self.h } }
impl Low for VkBar { fn low(&self) -> f64 { self.l } }
impl Close for VkBar { fn close(&self) -> f64 { self.c } }

// @harness vk_tr_bar props=C02,C08,C09 kind=complete tier=quick
// bar path, bit-precise: max(h-l, |h-pc|, |l-pc|) / h-l first; >= 0 for low <= high; 0 on a flat bar at the previous close
#[kani::proof]
fn vk_tr_bar() {
    let prev = vk_prev();
    let mut tr = TrueRange { prev_close: prev };
    let bar = VkBar { h: kani::any(), l: kani::any(), c: kani::any() };
    kani::assume(bar.h.is_finite() && bar.l.is_finite());
    let out = tr.next(&bar);
    assert!(tr.prev_close.map(|p| p.to_bits()) == Some(bar.c.to_bits()));
    match prev {
        None => assert!(out.to_bits() == (bar.h - bar.l).to_bits()),
        Some(p) => {
            kani::assume(p.is_finite());
            let (d1, d2, d3) = (bar.h - bar.l, (bar.h - p).abs(), (bar.l - p).abs());
            assert!(out == d1 || out == d2 || out == d3);
            assert!(out >= d1 && out >= d2 && out >= d3);
            if bar.l <= bar.h { assert!(out >= 0.0); }
            if bar.l == bar.h && bar.h == p { assert!(out == 0.0); }
        }
    }
    if prev.is_none() && bar.l <= bar.h { assert!(out >= 0.0); }
}
