use std::fmt;

use crate::errors::{Result, TaError};
use crate::{Low, Next, Period, Reset};
#[cfg(feature = "serde")]
use serde::{Deserialize, Serialize};

/// Returns the lowest value in a given time frame.
///
/// # Parameters
///
/// * _period_ - size of the time frame (integer greater than 0). Default value is 14.
///
/// # Example
///
/// ```
/// use ta::indicators::Minimum;
/// use ta::Next;
///
/// let mut min = Minimum::new(3).unwrap();
/// assert_eq!(min.next(10.0), 10.0);
/// assert_eq!(min.next(11.0), 10.0);
/// assert_eq!(min.next(12.0), 10.0);
/// assert_eq!(min.next(13.0), 11.0);
/// ```
#[cfg_attr(feature = "serde", derive(Serialize, Deserialize))]
#[derive(Debug, Clone)]
pub struct Minimum {
    period: usize,
    min_index: usize,
    cur_index: usize,
    deque: Box<[f64]>,
}

impl Minimum {
    pub fn new(period: usize) -> Result<Self> {
        match period {
            0 => Err(TaError::InvalidParameter),
            _ => Ok(Self {
                period,
                min_index: 0,
                cur_index: 0,
                deque: vec![f64::INFINITY; period].into_boxed_slice(),
            }),
        }
    }

    fn find_min_index(&self) -> usize {
        let mut min = f64::INFINITY;
        let mut index: usize = 0;

        for (i, &val) in self.deque.iter().enumerate() {
            if val < min {
                min = val;
                index = i;
            }
        }

        index
    }
}

impl Period for Minimum {
    fn period(&self) -> usize {
        self.period
    }
}

impl Next<f64> for Minimum {
    type Output = f64;

    fn next(&mut self, input: f64) -> Self::Output {
        self.deque[self.cur_index] = input;

        if input < self.deque[self.min_index] {
            self.min_index = self.cur_index;
        } else if self.min_index == self.cur_index {
            self.min_index = self.find_min_index();
        }

        self.cur_index = if self.cur_index + 1 < self.period {
            self.cur_index + 1
        } else {
            0
        };

        self.deque[self.min_index]
    }
}

impl<T: Low> Next<&T> for Minimum {
    type Output = f64;

    fn next(&mut self, input: &T) -> Self::Output {
        self.next(input.low())
    }
}

impl Reset for Minimum {
    fn reset(&mut self) {
        for i in 0..self.period {
            self.deque[i] = f64::INFINITY;
        }
    }
}

impl Default for Minimum {
    fn default() -> Self {
        Self::new(14).unwrap()
    }
}

impl fmt::Display for Minimum {
    fn fmt(&self, f: &mut fmt::Formatter) -> fmt::Result {
        write!(f, "MIN({})", self.period)
    }
}

#[cfg(test)]
mod tests {
    use super::*;
    use crate::test_helper::*;

    test_indicator!(Minimum);

    #[test]
    fn test_new() {
        assert!(Minimum::new(0).is_err());
        assert!(Minimum::new(1).is_ok());
    }

    #[test]
    fn test_next() {
        let mut min = Minimum::new(3).unwrap();

        assert_eq!(min.next(4.0), 4.0);
        assert_eq!(min.next(1.2), 1.2);
        assert_eq!(min.next(5.0), 1.2);
        assert_eq!(min.next(3.0), 1.2);
        assert_eq!(min.next(4.0), 3.0);
        assert_eq!(min.next(6.0), 3.0);
        assert_eq!(min.next(7.0), 4.0);
        assert_eq!(min.next(8.0), 6.0);
        assert_eq!(min.next(-9.0), -9.0);
        assert_eq!(min.next(0.0), -9.0);
    }

    #[test]
    fn test_next_with_bars() {
        fn bar(low: f64) -> Bar {
            Bar::new().low(low)
        }

        let mut min = Minimum::new(3).unwrap();

        assert_eq!(min.next(&bar(4.0)), 4.0);
        assert_eq!(min.next(&bar(4.0)), 4.0);
        assert_eq!(min.next(&bar(1.2)), 1.2);
        assert_eq!(min.next(&bar(5.0)), 1.2);
    }

    #[test]
    fn test_reset() {
        let mut min = Minimum::new(10).unwrap();

        assert_eq!(min.next(5.0), 5.0);
        assert_eq!(min.next(7.0), 5.0);

        min.reset();
        assert_eq!(min.next(8.0), 8.0);
    }

    #[test]
    fn test_default() {
        Minimum::default();
    }

    #[test]
    fn test_display() {
        let indicator = Minimum::new(10).unwrap();
        assert_eq!(format!("{}", indicator), "MIN(10)");
    }
}
