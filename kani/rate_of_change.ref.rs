fn vk_small_pos() -> f64 { let v: u8 = kani::any(); kani::assume(v >= 1 && v <= 8); v as f64 }

// differential check against the textbook definition on the recorded history, after every prefix
fn vk_roc_matches_reference<const P: usize, const K: usize>() {
    let mut ind = RateOfChange::new(P).unwrap();
    let mut hist = [0.0f64; K];
    let mut t = 0;
    while t < K {
        let x = vk_small_pos();
        hist[t] = x;
        let out = ind.next(x);
        let prev = if t == 0 { x } else if t < P { hist[0] } else { hist[t - P] };   // first price until P earlier prices exist
        let want = (x - prev) / prev * 100.0;
        assert!(out == want);
        if x == prev { assert!(out == 0.0); }
        t += 1;
    }
}
// @harness vk_roc_matches_reference_p1 props=C03,C17 kind=bounded(period=1,steps=3) tier=quick
#[kani::proof] #[kani::unwind(6)] fn vk_roc_matches_reference_p1() { vk_roc_matches_reference::<1, 3>() }
// @harness vk_roc_matches_reference_p2 props=C03,C17 kind=bounded(period=2,steps=5) tier=quick
#[kani::proof] #[kani::unwind(8)] fn vk_roc_matches_reference_p2() { vk_roc_matches_reference::<2, 5>() }
// @harness vk_roc_matches_reference_p3 props=C03,C17 kind=bounded(period=3,steps=6) tier=quick
#[kani::proof] #[kani::unwind(9)] fn vk_roc_matches_reference_p3() { vk_roc_matches_reference::<3, 6>() }
