use std::fmt;

use crate::errors::{Result, TaError};
use crate::traits::{Close, Next, Period, Reset};
#[cfg(feature = "serde")]
use serde::{Deserialize, Serialize};

/// Rate of Change (ROC)
///
/// # Formula
///
/// ROC = (Price<sub>t</sub> - Price<sub>t-n</sub>) / Price<sub>t-n</sub> * 100
///
/// Where:
///
/// * ROC - current value of Rate of Change indicator
/// * P<sub>t</sub> - price at the moment
/// * P<sub>t-n</sub> - price _n_ periods ago
///
/// # Parameters
///
/// * _period_ - number of periods integer greater than 0
///
/// # Example
///
/// ```
/// use ta::indicators::RateOfChange;
/// use ta::Next;
///
/// let mut roc = RateOfChange::new(2).unwrap();
/// assert_eq!(roc.next(10.0), 0.0);            //  0
/// assert_eq!(roc.next(9.7).round(), -3.0);    //  (9.7 - 10) / 10  * 100 = -3
/// assert_eq!(roc.next(20.0).round(), 100.0);  //  (20 - 10)  / 10  * 100 = 100
/// assert_eq!(roc.next(20.0).round(), 106.0);  //  (20 - 9.7) / 9.7 * 100 = 106
/// ```
///
/// # Links
///
/// * [Rate of Change, Wikipedia](https://en.wikipedia.org/wiki/Momentum_(technical_analysis))
///
#[doc(alias = "ROC")]
#[cfg_attr(feature = "serde", derive(Serialize, Deserialize))]
#[derive(Debug, Clone)]
pub struct RateOfChange {
    period: usize,
    index: usize,
    count: usize,
    deque: Box<[f64]>,
}

impl RateOfChange {
    pub fn new(period: usize) -> Result<Self> {
        match period {
            0 => Err(TaError::InvalidParameter),
            _ => Ok(Self {
                period,
                index: 0,
                count: 0,
                deque: vec![0.0; period].into_boxed_slice(),
            }),
        }
    }
}

impl Period for RateOfChange {
    fn period(&self) -> usize {
        self.period
    }
}

impl Next<f64> for RateOfChange {
    type Output = f64;

    fn next(&mut self, input: f64) -> f64 {
        let previous = if self.count > self.period {
            self.deque[self.index]
        } else {
            self.count += 1;
            if self.count == 1 {
                input
            } else {
                self.deque[0]
            }
        };
        self.deque[self.index] = input;

        self.index = if self.index + 1 < self.period {
            self.index + 1
        } else {
            0
        };

        (input - previous) / previous * 100.0
    }
}

impl<T: Close> Next<&T> for RateOfChange {
    type Output = f64;

    fn next(&mut self, input: &T) -> f64 {
        self.next(input.close())
    }
}

impl Default for RateOfChange {
    fn default() -> Self {
        Self::new(9).unwrap()
    }
}

impl fmt::Display for RateOfChange {
    fn fmt(&self, f: &mut fmt::Formatter) -> fmt::Result {
        write!(f, "ROC({})", self.period)
    }
}

impl Reset for RateOfChange {
    fn reset(&mut self) {
        self.index = 0;
        self.count = 0;
        for i in 0..self.period {
            self.deque[i] = 0.0;
        }
    }
}

#[cfg(test)]
mod tests {
    use super::*;
    use crate::test_helper::*;

    test_indicator!(RateOfChange);

    #[test]
    fn test_new() {
        assert!(RateOfChange::new(0).is_err());
        assert!(RateOfChange::new(1).is_ok());
        assert!(RateOfChange::new(100_000).is_ok());
    }

    #[test]
    fn test_next_f64() {
        let mut roc = RateOfChange::new(3).unwrap();

        assert_eq!(round(roc.next(10.0)), 0.0);
        assert_eq!(round(roc.next(10.4)), 4.0);
        assert_eq!(round(roc.next(10.57)), 5.7);
        assert_eq!(round(roc.next(10.8)), 8.0);
        assert_eq!(round(roc.next(10.9)), 4.808);
        assert_eq!(round(roc.next(10.0)), -5.393);
    }

    #[test]
    fn test_next_bar() {
        fn bar(close: f64) -> Bar {
            Bar::new().close(close)
        }

        let mut roc = RateOfChange::new(3).unwrap();

        assert_eq!(round(roc.next(&bar(10.0))), 0.0);
        assert_eq!(round(roc.next(&bar(10.4))), 4.0);
        assert_eq!(round(roc.next(&bar(10.57))), 5.7);
    }

    #[test]
    fn test_reset() {
        let mut roc = RateOfChange::new(3).unwrap();

        roc.next(12.3);
        roc.next(15.0);

        roc.reset();

        assert_eq!(round(roc.next(10.0)), 0.0);
        assert_eq!(round(roc.next(10.4)), 4.0);
        assert_eq!(round(roc.next(10.57)), 5.7);
    }
}
