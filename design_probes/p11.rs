use vstd::prelude::*;
verus! {
pub open spec fn cnt_pos(s: Seq<u64>) -> nat decreases s.len() {
    if s.len() == 0 { 0 } else { cnt_pos(s.drop_last()) + if s.last() > 0 { 1nat } else { 0nat } }
}
fn f(d: &Box<[u64]>, count: usize) -> (r: usize)
  requires count <= d@.len()
  ensures r == cnt_pos(d@.subrange(0, count as int))
{
    let mut c: usize = 0;
    for value in it: &d[..count] 
       invariant c == cnt_pos(d@.subrange(0, it.index@ as int)), c <= it.index@, it.index@ <= count, count <= d@.len(),
    {
        assert(d@.subrange(0, it.index@ + 1).drop_last() =~= d@.subrange(0, it.index@ as int));
        if *value > 0 { c = c + 1; }
    }
    c
}
}
fn main() {}
