
// @harness vk_atr_display props=C11 kind=bounded(concrete-parameters) tier=thorough
// Display renders NAME(params): ATR(14) (concrete parameters only)
#[kani::proof]
#[kani::unwind(40)]
fn vk_atr_display() {
    let ind = AverageTrueRange::new(14).unwrap();
    let s = format!("{}", ind);
    assert!(s == "ATR(14)");
}
