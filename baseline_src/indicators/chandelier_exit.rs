use std::fmt;

#[cfg(feature = "serde")]
use serde::{Deserialize, Serialize};

use crate::errors::Result;
use crate::indicators::{AverageTrueRange, Maximum, Minimum};
use crate::{Close, High, Low, Next, Period, Reset};

/// Chandelier Exit (CE).
///
/// Developed by Charles Le Beau and featured in Alexander Elder's books, the Chandelier Exit sets
/// a trailing stop-loss based on the Average True Range (ATR). The indicator is designed to keep
/// traders in a trend and prevent an early exit as long as the trend extends. Typically, the
/// Chandelier Exit will be above prices during a downtrend and below prices during an uptrend.
///
/// # Formula
///
/// Chandelier Exit (long) = Max(_period_) - ATR(_period_) * _multipler_
/// Chandelier Exit (short) = Min(_period_) + ATR(_period_) * _multipler_
///
/// # Parameters
///
/// * _period_ - number of periods (integer greater than 0). Default is 22.
/// * _multipler_ - ATR factor. Default is 3.
///
/// # Example
///
/// ```
/// use ta::indicators::ChandelierExit;
/// use ta::{Next, DataItem};
///
/// let value1 = DataItem::builder()
/// .open(21.0).high(22.0).low(20.0).close(21.0).volume(1.0).build().unwrap();
/// let value2 = DataItem::builder()
/// .open(23.0).high(24.0).low(22.0).close(23.0).volume(1.0).build().unwrap();
///
/// let mut ce = ChandelierExit::default();
///
/// let first = ce.next(&value1);
/// assert_eq!(first.long, 16.0);
/// assert_eq!(first.short, 26.0);
///
/// let second = ce.next(&value2);
/// assert_eq!((second.long * 100.0).round() / 100.0, 17.74);
/// assert_eq!((second.short * 100.0).round() / 100.0, 26.26);
/// ```
///
/// # Links
///
/// * [Chandelier Exit, StockCharts](https://school.stockcharts.com/doku.php?id=technical_indicators:chandelier_exit)
///
#[doc(alias = "CE")]
#[cfg_attr(feature = "serde", derive(Serialize, Deserialize))]
#[derive(Debug, Clone)]
pub struct ChandelierExit {
    atr: AverageTrueRange,
    min: Minimum,
    max: Maximum,
    multiplier: f64,
}

impl ChandelierExit {
    pub fn new(period: usize, multiplier: f64) -> Result<Self> {
        Ok(Self {
            atr: AverageTrueRange::new(period)?,
            min: Minimum::new(period)?,
            max: Maximum::new(period)?,
            multiplier,
        })
    }

    pub fn multiplier(&self) -> f64 {
        self.multiplier
    }
}

#[derive(Debug, Clone, PartialEq)]
pub struct ChandelierExitOutput {
    pub long: f64,
    pub short: f64,
}

impl From<ChandelierExitOutput> for (f64, f64) {
    fn from(ce: ChandelierExitOutput) -> Self {
        (ce.long, ce.short)
    }
}

impl Period for ChandelierExit {
    fn period(&self) -> usize {
        self.atr.period()
    }
}

impl<T: Low + High + Close> Next<&T> for ChandelierExit {
    type Output = ChandelierExitOutput;

    fn next(&mut self, input: &T) -> Self::Output {
        let atr = self.atr.next(input) * self.multiplier;
        let min = self.min.next(input);
        let max = self.max.next(input);

        ChandelierExitOutput {
            long: max - atr,
            short: min + atr,
        }
    }
}

impl Reset for ChandelierExit {
    fn reset(&mut self) {
        self.atr.reset();
        self.min.reset();
        self.max.reset();
    }
}

impl Default for ChandelierExit {
    fn default() -> Self {
        Self::new(22, 3.0).unwrap()
    }
}

impl fmt::Display for ChandelierExit {
    fn fmt(&self, f: &mut fmt::Formatter) -> fmt::Result {
        write!(f, "CE({}, {})", self.atr.period(), self.multiplier)
    }
}

#[cfg(test)]
mod tests {
    use crate::test_helper::*;

    use super::*;

    type Ce = ChandelierExit;

    fn round(nums: (f64, f64)) -> (f64, f64) {
        let n0 = (nums.0 * 100.0).round() / 100.0;
        let n1 = (nums.1 * 100.0).round() / 100.0;
        (n0, n1)
    }

    #[test]
    fn test_new() {
        assert!(Ce::new(0, 0.0).is_err());
        assert!(Ce::new(1, 1.0).is_ok());
        assert!(Ce::new(22, 3.0).is_ok());
    }

    #[test]
    fn test_next_bar() {
        let mut ce = Ce::new(5, 2.0).unwrap();

        let bar1 = Bar::new().high(2).low(1).close(1.5);
        assert_eq!(round(ce.next(&bar1).into()), (0.0, 3.0));

        let bar2 = Bar::new().high(5).low(3).close(4);
        assert_eq!(round(ce.next(&bar2).into()), (1.33, 4.67));

        let bar3 = Bar::new().high(9).low(7).close(8);
        assert_eq!(round(ce.next(&bar3).into()), (3.22, 6.78));

        let bar4 = Bar::new().high(5).low(3).close(4);
        assert_eq!(round(ce.next(&bar4).into()), (1.81, 8.19));

        let bar5 = Bar::new().high(5).low(3).close(4);
        assert_eq!(round(ce.next(&bar5).into()), (2.88, 7.12));

        let bar6 = Bar::new().high(2).low(1).close(1.5);
        assert_eq!(round(ce.next(&bar6).into()), (2.92, 7.08));
    }

    #[test]
    fn test_reset() {
        let mut ce = Ce::new(5, 2.0).unwrap();

        let bar1 = Bar::new().high(2).low(1).close(1.5);
        let bar2 = Bar::new().high(5).low(3).close(4);

        assert_eq!(round(ce.next(&bar1).into()), (0.0, 3.0));
        assert_eq!(round(ce.next(&bar2).into()), (1.33, 4.67));

        ce.reset();

        assert_eq!(round(ce.next(&bar1).into()), (0.0, 3.0));
        assert_eq!(round(ce.next(&bar2).into()), (1.33, 4.67));
    }

    #[test]
    fn test_default() {
        Ce::default();
    }

    #[test]
    fn test_display() {
        let indicator = Ce::new(10, 5.0).unwrap();
        assert_eq!(format!("{}", indicator), "CE(10, 5)");
    }
}
