// @harness vk_ema_new_all_periods props=C11,C12 kind=complete tier=quick
// every usize period: Err(InvalidParameter) iff 0, otherwise Ok without panic (overflow checks on), period() returns it,
// k is finite, 0 < k <= 1
#[kani::proof]
fn vk_ema_new_all_periods() {
    let p: usize = kani::any();
    let r = ExponentialMovingAverage::new(p);
    if p == 0 {
        assert!(matches!(r, Err(TaError::InvalidParameter)));
    } else {
        let e = r.unwrap();
        assert!(e.period() == p);
        assert!(e.k > 0.0 && e.k <= 1.0);
        assert!(e.is_new && e.current == 0.0);
        if p == 1 { assert!(e.k == 1.0); }
        if p == 3 { assert!(e.k == 0.5); }
    }
}

// @harness vk_ema_next_first_and_frame props=C02,C12 kind=complete tier=quick
// from any state and any input (incl. NaN/inf): never panics; the first output is the input bit-identically; is_new is cleared;
// period and k are untouched; the output is the stored current value
#[kani::proof]
fn vk_ema_next_first_and_frame() {
    let mut e = ExponentialMovingAverage { period: kani::any(), k: kani::any(), current: kani::any(), is_new: kani::any() };
    let (k, fresh, per) = (e.k, e.is_new, e.period);
    let x: f64 = kani::any();
    let out = e.next(x);
    assert!(!e.is_new && e.period == per && e.k.to_bits() == k.to_bits());
    assert!(out.to_bits() == e.current.to_bits());
    if fresh { assert!(out.to_bits() == x.to_bits()); }
}

// @harness vk_ema_next_formula_k_half props=C02 kind=complete tier=thorough
// the recursion alpha*x + (1-alpha)*prev, bit-precise, for the period-3 coefficient (alpha = 0.5) and all finite x, prev
#[kani::proof]
fn vk_ema_next_formula_k_half() {
    let mut e = ExponentialMovingAverage::new(3).unwrap();
    let cur: f64 = kani::any();
    let x: f64 = kani::any();
    kani::assume(cur.is_finite() && x.is_finite());
    e.is_new = false;
    e.current = cur;
    let out = e.next(x);
    let want = 0.5 * x + (1.0 - 0.5) * cur;
    assert!(out.to_bits() == want.to_bits() || (out.is_nan() && want.is_nan()));
}

// @harness vk_ema_reset props=C04 kind=complete tier=quick
#[kani::proof]
fn vk_ema_reset() {
    let mut e = ExponentialMovingAverage { period: kani::any(), k: kani::any(), current: kani::any(), is_new: kani::any() };
    let (k, per) = (e.k, e.period);
    e.reset();
    assert!(e.is_new && e.current.to_bits() == 0.0f64.to_bits() && e.period == per && e.k.to_bits() == k.to_bits());
}

// @harness vk_ema_clone props=C05 kind=complete tier=quick
// derived Clone copies every field bit-exactly; feeding the clone does not change the original
#[kani::proof]
fn vk_ema_clone() {
    let e = ExponentialMovingAverage { period: kani::any(), k: kani::any(), current: kani::any(), is_new: kani::any() };
    let mut c = e.clone();
    assert!(c.period == e.period && c.k.to_bits() == e.k.to_bits() && c.current.to_bits() == e.current.to_bits() && c.is_new == e.is_new);
    let (cur, fresh) = (e.current.to_bits(), e.is_new);
    let _ = c.next(kani::any::<f64>());
    assert!(e.current.to_bits() == cur && e.is_new == fresh);
}

