"""C18 support: generated serialized-size specs, from the struct definitions found in /repo/src on every run.

For every indicator struct the generator reads the field list from the source and emits (as contract text, woven
after the struct):
    ser_size()   the bincode size under bincode's layout rules (ASSUMED: usize/f64 8 bytes, bool 1, Option<f64> 1 or 9,
                 Box<[f64]> 8 + 8*len, nested struct = sum of its fields)
    buf_total()  the total number of buffered f64 slots
    per_sum()    the sum of the periods of the window-owning leaves
    lemma_ser_bound:  ser_size() <= K + 8 * buf_total()          (K = the fixed part, computed here, checked <= 256)
    lemma_buf_total:  shape_ok() ==> buf_total() == per_sum()     (the window length is the period: nothing grows)
A field whose type is not in the table makes the run undecided for C18 (unknown state cannot be bounded).
"""
import re

FIXED = {'usize': 8, 'f64': 8, 'bool': 1, 'u64': 8, 'i64': 8, 'u32': 4, 'i32': 4, 'u8': 1}


class LayoutError(Exception):
    pass


def parse_struct_fields(body):
    """body: text between the braces of a struct -> [(name, type)]"""
    out = []
    depth = 0
    cur = ''
    for ch in body:
        if ch in '<([':
            depth += 1
        elif ch in '>)]':
            depth -= 1
        if ch == ',' and depth == 0:
            out.append(cur)
            cur = ''
        else:
            cur += ch
    if cur.strip():
        out.append(cur)
    res = []
    for f in out:
        f = re.sub(r'//[^\n]*', '', f)
        f = re.sub(r'#\[[^\]]*\]', '', f).strip()
        if not f:
            continue
        m = re.match(r'(?:pub(?:\([^)]*\))?\s+)?(\w+)\s*:\s*(.+)$', f, re.S)
        if not m:
            raise LayoutError('cannot parse field: %r' % f)
        res.append((m.group(1), ' '.join(m.group(2).split())))
    return res


def gen(structs, aliases):
    """structs: {name: [(field, type)]} for all indicator structs; aliases: {alias: name}
    -> ({name: verus text}, {name: info}, [problems])"""
    texts, info, problems = {}, {}, []

    def resolve(t):
        return aliases.get(t, t)
    K = {}

    def fixed_of(name, seen=()):
        if name in K:
            return K[name]
        if name in seen:
            raise LayoutError('recursive struct ' + name)
        k = 0
        for (f, t) in structs[name]:
            rt = resolve(t)
            if t in FIXED:
                k += FIXED[t]
            elif t == 'Option<f64>':
                k += 9
            elif t == 'Box<[f64]>':
                k += 8
            elif rt in structs:
                k += fixed_of(rt, seen + (name,))
            else:
                raise LayoutError('%s.%s: field type %s is not a fixed-size scalar, Option<f64>, Box<[f64]> or an indicator' % (name, f, t))
        K[name] = k
        return k
    for name, fields in structs.items():
        try:
            k = fixed_of(name)
        except LayoutError as e:
            problems.append(str(e))
            continue
        size_terms, buf_terms, per_terms, calls, nbuf = [], [], [], [], 0
        has_buf = any(t == 'Box<[f64]>' for _, t in fields)
        has_period = any(f == 'period' and t == 'usize' for f, t in fields)
        for (f, t) in fields:
            rt = resolve(t)
            if t in FIXED:
                size_terms.append('%dnat' % FIXED[t])
            elif t == 'Option<f64>':
                size_terms.append('(if self.%s is Some { 9nat } else { 1nat })' % f)
            elif t == 'Box<[f64]>':
                size_terms.append('(8nat + 8 * self.%s@.len())' % f)
                buf_terms.append('self.%s@.len()' % f)
                nbuf += 1
                if has_period:
                    per_terms.append('(self.period as nat)')
                else:
                    problems.append('%s: buffer %s without a `period` field' % (name, f))
            else:
                size_terms.append('self.%s.ser_size()' % f)
                buf_terms.append('self.%s.buf_total()' % f)
                per_terms.append('self.%s.per_sum()' % f)
                calls.append(f)
        txt = 'impl %s {\n' % name
        txt += '    pub closed spec fn ser_size(&self) -> nat { %s }\n' % (' + '.join(size_terms) or '0nat')
        txt += '    pub closed spec fn buf_total(&self) -> nat { %s }\n' % (' + '.join(buf_terms) or '0nat')
        txt += '    pub closed spec fn per_sum(&self) -> nat { %s }\n' % (' + '.join(per_terms) or '0nat')
        txt += '    pub proof fn lemma_ser_bound(&self)\n        ensures self.ser_size() <= %d + 8 * self.buf_total() //#C18\n    {\n' % k
        for c in calls:
            txt += '        self.%s.lemma_ser_bound();\n' % c
        txt += '    }\n'
        info[name] = {'fixed_bytes_K': k, 'buffers': nbuf, 'fields': fields, 'nested': calls}
        texts[name] = txt   # lemma_buf_total appended by the caller (needs to know whether shape_ok exists)
    return texts, info, problems
