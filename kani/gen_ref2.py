#!/usr/bin/env python3
"""generates kani/<module>.ref2.rs: differential harnesses for the EMA family and oscillators built from it.  The reference is
the documented formula written out from scratch over the recorded history (not a call into the crate).  Small integer inputs."""
import os
here = os.path.dirname(os.path.abspath(__file__))
SMALL = 'fn vk_small2() -> f64 { let v: i8 = kani::any(); kani::assume(v >= -4 && v <= 4); v as f64 }\n'
POS = 'fn vk_pos2() -> f64 { let v: u8 = kani::any(); kani::assume(v >= 1 && v <= 8); v as f64 }\n'
REF_EMA = '''// EMA(n) over hist[0..=t], from scratch: first value, then alpha*x + (1-alpha)*prev with alpha = 2/(n+1)
fn vk_ref_ema(hist: &[f64], t: usize, n: usize) -> f64 {
    let alpha = 2.0 / (n as f64 + 1.0);
    let mut e = hist[0];
    let mut j = 1;
    while j <= t { e = alpha * hist[j] + (1.0 - alpha) * e; j += 1; }
    e
}
'''
F = {}
F['exponential_moving_average'] = SMALL + REF_EMA + '''
fn vk_ema_matches_reference<const P: usize, const K: usize>() {
    let mut ind = ExponentialMovingAverage::new(P).unwrap();
    let mut hist = [0.0f64; K];
    let mut t = 0;
    while t < K {
        let x = vk_small2();
        hist[t] = x;
        let out = ind.next(x);
        assert!(out == vk_ref_ema(&hist, t, P));
        t += 1;
    }
}
// @harness vk_ema_matches_reference_p1 props=C02 kind=bounded(period=1,steps=3) tier=quick
#[kani::proof] #[kani::unwind(6)] fn vk_ema_matches_reference_p1() { vk_ema_matches_reference::<1, 3>() }
// @harness vk_ema_matches_reference_p3 props=C02 kind=bounded(period=3,steps=4) tier=quick
#[kani::proof] #[kani::unwind(7)] fn vk_ema_matches_reference_p3() { vk_ema_matches_reference::<3, 4>() }
'''
F['moving_average_convergence_divergence'] = SMALL + REF_EMA + '''
// MACD(f, s, g): line = EMA_f - EMA_s, signal = EMA_g(line), histogram = line - signal, all from scratch
fn vk_macd_matches_reference<const PF: usize, const PS: usize, const PG: usize, const K: usize>() {
    let mut ind = MovingAverageConvergenceDivergence::new(PF, PS, PG).unwrap();
    let mut hist = [0.0f64; K];
    let mut line = [0.0f64; K];
    let mut t = 0;
    while t < K {
        let x = vk_small2();
        hist[t] = x;
        let out = ind.next(x);
        line[t] = vk_ref_ema(&hist, t, PF) - vk_ref_ema(&hist, t, PS);
        let sig = vk_ref_ema(&line, t, PG);
        assert!(out.macd == line[t]);
        assert!(out.signal == sig);
        assert!(out.histogram == line[t] - sig);
        t += 1;
    }
}
// @harness vk_macd_matches_reference_133 props=C02,C09,C15 kind=bounded(periods=(1,3,3),steps=3) tier=quick
#[kani::proof] #[kani::unwind(6)] fn vk_macd_matches_reference_133() { vk_macd_matches_reference::<1, 3, 3, 3>() }
// @harness vk_macd_matches_reference_313 props=C02,C09,C15 kind=bounded(periods=(3,1,3),steps=3) tier=quick
#[kani::proof] #[kani::unwind(6)] fn vk_macd_matches_reference_313() { vk_macd_matches_reference::<3, 1, 3, 3>() }
'''
F['relative_strength_index'] = POS + REF_EMA + '''
// RSI(n) = 100*U/(U+D), U and D the EMA(n) of gains and losses, both seeded 0.1 on the first input (so the first output is 50)
fn vk_rsi_matches_reference<const P: usize, const K: usize>() {
    let mut ind = RelativeStrengthIndex::new(P).unwrap();
    let mut ups = [0.0f64; K];
    let mut downs = [0.0f64; K];
    let mut prev = 0.0;
    let mut t = 0;
    while t < K {
        let x = vk_pos2();
        if t == 0 { ups[0] = 0.1; downs[0] = 0.1; }
        else if x > prev { ups[t] = x - prev; downs[t] = 0.0; } else { ups[t] = 0.0; downs[t] = prev - x; }
        prev = x;
        let out = ind.next(x);
        let (u, d) = (vk_ref_ema(&ups, t, P), vk_ref_ema(&downs, t, P));
        if t == 0 { assert!(out == 50.0); }
        if u + d != 0.0 { assert!(out == 100.0 * u / (u + d)); assert!(out >= 0.0 && out <= 100.0); } else { assert!(out == 50.0); }
        t += 1;
    }
}
// @harness vk_rsi_matches_reference_p1 props=C03,C07,C08 kind=bounded(period=1,steps=3) tier=quick
#[kani::proof] #[kani::unwind(6)] fn vk_rsi_matches_reference_p1() { vk_rsi_matches_reference::<1, 3>() }
// (the full formula comparison at period 2 / 4 steps did not finish in 2400 s on the unchanged tree; the range-only variant does)
// RSI stays in [0, 100] (public API only, no reference): period P, K positive prices
fn vk_rsi_in_range<const P: usize, const K: usize>() {
    let mut ind = RelativeStrengthIndex::new(P).unwrap();
    let mut t = 0;
    while t < K {
        let out = ind.next(vk_pos2());
        assert!(out >= 0.0 && out <= 100.0);
        t += 1;
    }
}
// @harness vk_rsi_in_range_p2 props=C07,C08 kind=bounded(period=2,steps=4) tier=thorough
#[kani::proof] #[kani::unwind(7)] fn vk_rsi_in_range_p2() { vk_rsi_in_range::<2, 4>() }
// @harness vk_rsi_matches_reference_p3 props=C03,C07,C08 kind=bounded(period=3,steps=3) tier=thorough
#[kani::proof] #[kani::unwind(6)] fn vk_rsi_matches_reference_p3() { vk_rsi_matches_reference::<3, 3>() }
'''
F['on_balance_volume'] = SMALL + '''
struct VkCV { c: f64, v: f64 }
impl Close for VkCV { fn close(&self) -> f64 { self.c } }
impl Volume for VkCV { fn volume(&self) -> f64 { self.v } }
// OBV = running sum of +volume, -volume or 0 by the sign of the close change (first close compared with 0)
// @harness vk_obv_matches_reference props=C03 kind=bounded(steps=4) tier=quick
#[kani::proof] #[kani::unwind(7)]
fn vk_obv_matches_reference() {
    let mut ind = OnBalanceVolume::new();
    let mut total = 0.0;
    let mut prev = 0.0;
    let mut t = 0;
    while t < 4 {
        let bar = VkCV { c: vk_small2(), v: vk_small2().abs() };
        if bar.c > prev { total = total + bar.v; } else if bar.c < prev { total = total - bar.v; }
        prev = bar.c;
        let out = ind.next(&bar);
        assert!(out == total);
        t += 1;
    }
}
'''
F['average_true_range'] = SMALL + REF_EMA + '''
// ATR(n) on scalars = EMA(n) of |x_t - x_{t-1}| (0 for the first input)
fn vk_atr_matches_reference<const P: usize, const K: usize>() {
    let mut ind = AverageTrueRange::new(P).unwrap();
    let mut trs = [0.0f64; K];
    let mut prev = 0.0;
    let mut t = 0;
    while t < K {
        let x = vk_small2();
        trs[t] = if t == 0 { 0.0 } else { (x - prev).abs() };
        prev = x;
        let out = ind.next(x);
        assert!(out == vk_ref_ema(&trs, t, P));
        assert!(out >= 0.0);
        t += 1;
    }
}
// @harness vk_atr_matches_reference_p3 props=C02,C09,C15 kind=bounded(period=3,steps=4) tier=quick
#[kani::proof] #[kani::unwind(7)] fn vk_atr_matches_reference_p3() { vk_atr_matches_reference::<3, 4>() }
'''
for mod, body in F.items():
    open(os.path.join(here, mod + '.ref2.rs'), 'w').write(body)
print(len(F))
