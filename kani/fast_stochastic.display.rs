
// @harness vk_fs_display props=C11 kind=bounded(concrete-parameters) tier=thorough
// Display renders NAME(params): FAST_STOCH(14) (concrete parameters only)
#[kani::proof]
#[kani::unwind(40)]
fn vk_fs_display() {
    let ind = FastStochastic::new(14).unwrap();
    let s = format!("{}", ind);
    assert!(s == "FAST_STOCH(14)");
}
